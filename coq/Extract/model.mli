
val negb : bool -> bool

type nat =
| O
| S of nat

val option_map : ('a1 -> 'a2) -> 'a1 option -> 'a2 option

val fst : ('a1 * 'a2) -> 'a1

val snd : ('a1 * 'a2) -> 'a2

val length : 'a1 list -> nat

val app : 'a1 list -> 'a1 list -> 'a1 list

type comparison =
| Eq
| Lt
| Gt

val compOpp : comparison -> comparison

val add : nat -> nat -> nat

val mul : nat -> nat -> nat

val sub : nat -> nat -> nat

val eqb : bool -> bool -> bool

module Nat :
 sig
  val eqb : nat -> nat -> bool

  val leb : nat -> nat -> bool

  val ltb : nat -> nat -> bool
 end

val hd : 'a1 -> 'a1 list -> 'a1

val tl : 'a1 list -> 'a1 list

val nth : nat -> 'a1 list -> 'a1 -> 'a1

val nth_error : 'a1 list -> nat -> 'a1 option

val last : 'a1 list -> 'a1 -> 'a1

val rev : 'a1 list -> 'a1 list

val concat : 'a1 list list -> 'a1 list

val map : ('a1 -> 'a2) -> 'a1 list -> 'a2 list

val flat_map : ('a1 -> 'a2 list) -> 'a1 list -> 'a2 list

val fold_left : ('a1 -> 'a2 -> 'a1) -> 'a2 list -> 'a1 -> 'a1

val existsb : ('a1 -> bool) -> 'a1 list -> bool

val forallb : ('a1 -> bool) -> 'a1 list -> bool

val filter : ('a1 -> bool) -> 'a1 list -> 'a1 list

val find : ('a1 -> bool) -> 'a1 list -> 'a1 option

val combine : 'a1 list -> 'a2 list -> ('a1 * 'a2) list

val firstn : nat -> 'a1 list -> 'a1 list

val skipn : nat -> 'a1 list -> 'a1 list

type positive =
| XI of positive
| XO of positive
| XH

type n =
| N0
| Npos of positive

type z =
| Z0
| Zpos of positive
| Zneg of positive

module Pos :
 sig
  type mask =
  | IsNul
  | IsPos of positive
  | IsNeg
 end

module Coq_Pos :
 sig
  val succ : positive -> positive

  val add : positive -> positive -> positive

  val add_carry : positive -> positive -> positive

  val pred_double : positive -> positive

  type mask = Pos.mask =
  | IsNul
  | IsPos of positive
  | IsNeg

  val succ_double_mask : mask -> mask

  val double_mask : mask -> mask

  val double_pred_mask : positive -> mask

  val sub_mask : positive -> positive -> mask

  val sub_mask_carry : positive -> positive -> mask

  val sub : positive -> positive -> positive

  val mul : positive -> positive -> positive

  val size_nat : positive -> nat

  val size : positive -> positive

  val compare_cont : comparison -> positive -> positive -> comparison

  val compare : positive -> positive -> comparison

  val eqb : positive -> positive -> bool

  val ggcdn : nat -> positive -> positive -> positive * (positive * positive)

  val ggcd : positive -> positive -> positive * (positive * positive)

  val iter_op : ('a1 -> 'a1 -> 'a1) -> positive -> 'a1 -> 'a1

  val to_nat : positive -> nat

  val of_succ_nat : nat -> positive
 end

module N :
 sig
  val add : n -> n -> n

  val mul : n -> n -> n

  val to_nat : n -> nat
 end

module Z :
 sig
  val double : z -> z

  val succ_double : z -> z

  val pred_double : z -> z

  val pos_sub : positive -> positive -> z

  val add : z -> z -> z

  val opp : z -> z

  val sub : z -> z -> z

  val mul : z -> z -> z

  val compare : z -> z -> comparison

  val sgn : z -> z

  val leb : z -> z -> bool

  val ltb : z -> z -> bool

  val eqb : z -> z -> bool

  val max : z -> z -> z

  val min : z -> z -> z

  val abs : z -> z

  val to_nat : z -> nat

  val of_nat : nat -> z

  val to_pos : z -> positive

  val pos_div_eucl : positive -> z -> z * z

  val div_eucl : z -> z -> z * z

  val div : z -> z -> z

  val modulo : z -> z -> z

  val log2 : z -> z

  val ggcd : z -> z -> z * (z * z)
 end

type ascii =
| Ascii of bool * bool * bool * bool * bool * bool * bool * bool

val n_of_digits : bool list -> n

val n_of_ascii : ascii -> n

val nat_of_ascii : ascii -> nat

type string =
| EmptyString
| String of ascii * string

val append : string -> string -> string

val list_ascii_of_string : string -> ascii list

type q = { qnum : z; qden : positive }

val inject_Z : z -> q

val qmult : q -> q -> q

val qinv : q -> q

val qdiv : q -> q -> q

val qred : q -> q

type site =
| SiteLineParse
| SiteEscapeSlice
| SiteSpanBounds
| SiteEndorseRect
| SiteEndorseRounded
| SiteLegendSlice
| SiteCircleArt

type err =
| Panic of site
| OutOfFuel

type 'a res =
| Ok of 'a
| Err of err

val bind : 'a1 res -> ('a1 -> 'a2 res) -> 'a2 res

val mapM : ('a1 -> 'a2 res) -> 'a1 list -> 'a2 list res

val cmp_then : comparison -> comparison -> comparison

val is_lt : comparison -> bool

val is_eq : comparison -> bool

val bool_cmp : bool -> bool -> comparison

val list_cmp :
  ('a1 -> 'a1 -> comparison) -> 'a1 list -> 'a1 list -> comparison

val list_eqb : ('a1 -> 'a1 -> bool) -> 'a1 list -> 'a1 list -> bool

val zs_eqb : z list -> z list -> bool

val find_map : ('a1 -> 'a2 option) -> 'a1 list -> 'a2 option

val mem : ('a1 -> 'a1 -> bool) -> 'a1 -> 'a1 list -> bool

val ins : ('a1 -> 'a1 -> bool) -> 'a1 -> 'a1 list -> 'a1 list * bool

val isort : ('a1 -> 'a1 -> bool) -> 'a1 list -> 'a1 list

val zmin_list : z -> z list -> z

val zmax_list : z -> z list -> z

val index_from : nat -> 'a1 list -> (nat * 'a1) list

val enumerate : 'a1 list -> (nat * 'a1) list

val repeatZ : 'a1 -> nat -> 'a1 list

type rtree =
| RLeaf
| RNode of rtree * z * z * z * rtree

val rlookup : rtree -> z -> z option

val width_tree : rtree

val white_tree : rtree

val char_width : z -> z option

val is_whitespace : z -> bool

val char_cols : z -> z

val text_columns : z list -> z

val low_byte : z -> z

val byte_alpha : z -> bool

val byte_digit : z -> bool

val alpha_or_underscore : z -> bool

val alphanum_or_underscore : z -> bool

val non_xml : z -> bool

type point = { px : z; py : z }

type cell = { cx : z; cy : z }

val cW : z

val cH : z

val uNIT : z

val point_cmp : point -> point -> comparison

val point_eqb : point -> point -> bool

val point_min : point -> point -> point

val point_max : point -> point -> point

val padd : point -> point -> point

val cell_cmp : cell -> cell -> comparison

val cell_eqb : cell -> cell -> bool

val cell_adjacent : cell -> cell -> bool

val cell_add : cell -> cell -> cell

val cell_sub : cell -> cell -> cell

val top_left_most : cell -> point

val bottom_right_most : cell -> point

val cell_abs : cell -> point -> point

val grid : z -> z -> point

val cell_q : cell -> point

type marker =
| MArrow
| MClearArrow
| MCircle
| MSquare
| MDiamond
| MOpenCircle
| MBigOpenCircle

type ptag =
| ArrowTopLeft
| ArrowTop
| ArrowTopRight
| ArrowLeft
| ArrowRight
| ArrowBottomLeft
| ArrowBottom
| ArrowBottomRight
| DiamondBullet

type line = { lstart : point; lend : point; lbroken : bool }

type arc = { astart : point; aend : point; aradius : z; amajor : bool;
             asweep : bool }

type circle = { ccenter : point; cradius : z; cfilled : bool }

type polygon = { ppoints : point list; pfilled : bool; ptags : ptag list }

type rect = { rstart : point; rend : point; rfilled : bool;
              rradius : z option; rbroken : bool }

type celltext = { ctstart : cell; ctcontent : z list }

type markerline = { mlline : line; mlstart : marker option;
                    mlend : marker option }

type fragment =
| FLine of line
| FMarkerLine of markerline
| FCircle of circle
| FArc of arc
| FPolygon of polygon
| FRect of rect
| FCellText of celltext

val mk_line : point -> point -> bool -> line

val mk_arc_gen : point -> point -> z -> bool -> bool -> arc

val mk_arc : point -> point -> z -> arc

val mk_rect : point -> point -> bool -> z option -> bool -> rect

val seg_bounds : point -> point -> point * point

val celltext_last_cell : celltext -> cell

val polygon_bounds : polygon -> point * point

val bounds : fragment -> point * point

val mins : fragment -> point

val maxs : fragment -> point

val line_cmp : line -> line -> comparison

val arc_cmp : arc -> arc -> comparison

val circle_cmp : circle -> circle -> comparison

val poly_first : polygon -> point

val poly_last : polygon -> point

val polygon_cmp : polygon -> polygon -> comparison

val opt_cmp : z option -> z option -> comparison

val rect_cmp : rect -> rect -> comparison

val celltext_cmp : celltext -> celltext -> comparison

val rank : fragment -> z

val fragment_cmp : fragment -> fragment -> comparison

val fragment_eqb : fragment -> fragment -> bool

val fragment_less : fragment -> fragment -> bool

val line_abs : cell -> line -> line

val fragment_abs : cell -> fragment -> fragment

val is_broken : fragment -> bool

val can_fit : fragment -> fragment -> bool

val cross : point -> point -> point -> z

val is_collinear : point -> point -> point -> bool

val line_contains : line -> point -> bool

val line_overlaps : line -> point -> point -> bool

val touching_line : line -> line -> bool

val line_is_touching : line -> line -> bool

val line_can_merge : line -> line -> bool

val line_merge : line -> line -> line option

type direction =
| TopLeft
| Top
| TopRight
| Left
| Right
| BottomLeft
| Bottom
| BottomRight

val tAN_9_5 : z

val tAN_79_5 : z

val tAN_10_5 : z

val tAN_80_5 : z

val e12 : z

val heading : line -> direction

val threshold_sq : direction -> z

val dist_sq : point -> point -> z

val line_is_touching_circle : line -> circle -> bool

val merge_circle : line -> circle -> fragment option

val ends_touch : point -> point -> point -> point -> bool

val line_is_touching_arc : line -> arc -> bool

val arc_is_touching : arc -> arc -> bool

val arc_is_right_angle : arc -> bool

val celltext_can_merge : celltext -> celltext -> bool

val celltext_merge : celltext -> celltext -> celltext option

val celltext_contacting : celltext -> celltext -> bool

val fragment_merge : fragment -> fragment -> fragment option

val is_contacting : fragment -> fragment -> bool

val try_merge_rev :
  ('a1 -> 'a1 -> 'a1 option) -> 'a1 list -> 'a1 -> 'a1 list option

val step : ('a1 -> 'a1 -> 'a1 option) -> 'a1 list -> 'a1 -> 'a1 list

val second_pass : ('a1 -> 'a1 -> 'a1 option) -> 'a1 list -> 'a1 list

val merge_rec :
  ('a1 -> 'a1 -> 'a1 option) -> nat -> 'a1 list -> 'a1 list option

val merge_recursive : ('a1 -> 'a1 -> 'a1 option) -> 'a1 list -> 'a1 list res

type signal =
| Faint
| Weak
| Medium
| Strong

val intensity : signal -> z

type dir8 =
| DTopLeft
| DTop
| DTopRight
| DLeft
| DRight
| DBottomLeft
| DBottom
| DBottomRight

val dir8_offset : dir8 -> cell

type cond =
| CTrue
| CIs of dir8 * z
| COverlap of dir8 * signal * point * point
| CArcsTo of dir8 * point * point
| CNot of cond
| CAnd of cond * cond
| COr of cond * cond

type property = { pch : z; psig : (signal * fragment list) list;
                  pbeh : (cond * fragment list) list }

val empty_property : property

val fline : point -> point -> fragment

val fbroken : point -> point -> fragment

val farc : point -> point -> z -> fragment

val fcircle : point -> z -> bool -> fragment

val frect : point -> point -> bool -> bool -> fragment

val fpolygon : point list -> bool -> ptag list -> fragment

val cell_text_frag : z -> fragment

val frag_line_overlap : fragment -> point -> point -> bool

val frag_arcs_to : fragment -> point -> point -> bool

val prop_line_overlap : property -> signal -> point -> point -> bool

val prop_arcs_to : property -> point -> point -> bool

val eval : (dir8 -> property) -> cond -> bool

val property_fragments : property -> (dir8 -> property) -> fragment list

val strong_property : z -> fragment list -> property

val strip_cr_rev : z list -> z list

val lines_aux : z list -> z list -> z list list

val lines : z list -> z list list

val fillers : z -> z list

val row_of_line : z list -> z list

val string_buffer : z list -> z list list

val skip_nq : z list -> nat -> z list * nat

val char_strings : z list -> nat -> z list * nat

val escape_string : z list -> nat -> (((nat * nat) * z list) * nat) option

val line_parse_aux : nat -> z list -> nat -> (nat * nat) list option

val line_parse : z list -> (nat * nat) list res

val slice : 'a1 list -> nat -> nat -> 'a1 list option

val slice_from : 'a1 list -> nat -> 'a1 list option

val oslice : 'a1 list option -> 'a1 list res

val escaped_columns : z list -> z

val escape_segments :
  z -> z list -> (nat * nat) list -> nat -> ((cell * z list) list * z list)
  res

val escape_line : z -> z list -> ((cell * z list) list * z list) res

val skip_while : (z -> bool) -> z list -> z list

val take_while : (z -> bool) -> z list -> z list

val is_blank : z -> bool

val p_space : z list -> z list

val p_sym : z -> z list -> z list option

val p_new_line : z list -> z list option

val p_tag : z list -> z list -> z list option

val p_ident : z list -> (z list * z list) option

val not_brace : z -> bool

val p_css_styles : z list -> (z list * z list) option

val p_class_and_style : z list -> ((z list * z list) * z list) option

val p_more_styles : nat -> z list -> (z list * z list) list

val p_css_style_list : z list -> (z list * z list) list

val lEGEND : z list

val lEGEND_MARK : z list

val parse_css_legend : z list -> (z list * z list) list option

val p_more_idents : nat -> z list -> z list list * z list

val p_classes : z list -> z list list * z list

val parse_css_tag : z list -> z list list option

val as_css_tag : z list -> z list list

val prefix_of : z list -> z list -> bool

val find_sub : z list -> z list -> z list -> (z list * z list) option

type cellbuffer = { cb_cells : (cell * z) list;
                    cb_css : (z list * z list) list;
                    cb_escaped : (cell * z list) list }

val cells_of_row : z -> z -> z list -> (cell * z) list

val cells_of_rows :
  z -> z list list -> ((cell * z) list * (cell * z list) list) res

val cellbuffer_of_text : z list -> (z list * z list) list -> cellbuffer res

val uncrlf_aux : bool -> z list -> z list

val uncrlf : z list -> z list

val cellbuffer_from : z list -> cellbuffer res

val cells_max : (cell * z) list -> cell

val ascii_33 : property

val ascii_35 : property

val ascii_39 : property

val ascii_40 : property

val ascii_41 : property

val ascii_42 : property

val ascii_43 : property

val ascii_44 : property

val ascii_45 : property

val ascii_46 : property

val ascii_47 : property

val ascii_58 : property

val ascii_60 : property

val ascii_61 : property

val ascii_62 : property

val ascii_79 : property

val ascii_86 : property

val ascii_88 : property

val ascii_92 : property

val ascii_94 : property

val ascii_95 : property

val ascii_96 : property

val ascii_111 : property

val ascii_118 : property

val ascii_124 : property

val ascii_126 : property

val ascii_8217 : property

val ascii_properties : property list

val unicode_fragments : (z * fragment list) list

type span = (cell * z) list

val cellchar_eqb : (cell * z) -> (cell * z) -> bool

val span_eqb : span -> span -> bool

val span_can_merge : span -> span -> bool

val span_merge : span -> span -> span option

val spans_of_cells : (cell * z) list -> span list res

val span_bounds : span -> (cell * cell) option

val span_localize : span -> span

val assoc_z : z -> (z * 'a1) list -> 'a1 option

val unicode_fragments_of : z -> fragment list option

val property_of_char : z -> property option

type fragspan = { fs_span : span; fs_frag : fragment }

val fragspan_eqb : fragspan -> fragspan -> bool

val fragspan_less : fragspan -> fragspan -> bool

val fragspan_abs : cell -> fragspan -> fragspan

val fragspan_merge : fragspan -> fragspan -> fragspan option

type fragbuf = (cell * fragspan list) list

val fb_update :
  cell -> (fragspan list option -> fragspan list) -> fragbuf -> fragbuf

val sort_cell : fragspan list -> fragspan list

val add_fragments_to_cell : cell -> z -> fragment list -> fragbuf -> fragbuf

val add_fragment_to_cell : cell -> z -> fragment -> fragbuf -> fragbuf

type propbuf = (cell * property) list

val pb_get : propbuf -> cell -> property option

val pb_entries : propbuf -> propbuf

val pb_env : propbuf -> cell -> dir8 -> property

val add_entry : propbuf -> fragbuf res -> (cell * property) -> fragbuf res

val fragbuf_of_entries : propbuf -> propbuf -> fragbuf res

val propbuf_of_span : span -> propbuf

val fragbuf_of_span : span -> fragbuf res

val abs_fragment_spans : fragbuf -> fragspan list

val merge_fragment_spans : fragbuf -> fragspan list res

type contacts = fragspan list

val contacts_is_contacting : contacts -> contacts -> bool

val contacts_merge : contacts -> contacts -> contacts option

val contacts_span : contacts -> span

val contacts_of_span : span -> contacts list res

val circles_span : (circle * (cell * z) list) list

val quarter_arc_span : (arc * (cell * z) list) list

val half_arc_span : (arc * (cell * z) list) list

val three_arc_span : (arc * (cell * z) list) list

val table_match : span -> span -> span option

val endorse_circle_span : span -> (circle * span) option

val endorse_arc_span : (arc * span) list -> span -> (arc * span) option

val arc_abs : cell -> arc -> arc

val circle_abs : cell -> circle -> circle

val endorse_to_arcs_and_circles : span -> (fragspan list * span) res

val line_is_horizontal : line -> bool

val line_is_vertical : line -> bool

val line_aabb_parallel : line -> line -> bool

val line_aabb_perpendicular : line -> line -> bool

val frag_aabb_parallel : fragment -> fragment -> bool

val pair_uses : (nat * nat) list -> nat -> bool

val parallel_aabb_group : fragment list -> (nat * nat) list

val as_line : fragment list -> nat -> line option

val all_bound_points : fragment list -> point list

val pmin_list : point -> point list -> point

val pmax_list : point -> point list -> point

val line_is : line -> z -> z -> z -> z -> bool

val is_outline_of_bounds : line list -> bool

val is_rect : fragment list -> bool res

val bounding_rect : fragment list -> z option -> fragment option

val endorse_rect : fragment list -> fragment option res

val right_angle_arcs : fragment list -> nat list

val is_rounded_rect : fragment list -> (bool * z option) res

val endorse_rounded_rect : fragment list -> fragment option res

val contacts_endorse_rect : contacts -> fragment option res

val endorse_rects : contacts list -> (fragspan list * contacts list) res

val re_endorse : contacts list -> (fragspan list * span list) res

val span_endorse : span -> (fragspan list * span list) res

val endorse_cells : (cell * z) list -> (fragspan list * contacts list) res

val escaped_fragspan : (cell * z list) -> fragspan

type ftree =
| FT of fragment * z list list * ftree list

val ft_frag : ftree -> fragment

val frag_css_tag : fragment -> z list list

val enclose_deep_first : ftree -> ftree -> ftree option

val enclose_fragments : fragment list -> ftree list res

val flatten_tree : ftree -> (fragment * z list list) list

val zs : string -> z list

type aval =
| VStr of z list
| VNum of q
| VArc of q * q * q * bool * bool * q * q
| VPoints of (q * q) list

type attr = z list * aval list

type node =
| Elem of z list * attr list * node list
| TextLeaf of z list

val digits_aux : nat -> z -> z list -> z list

val print_z_nonneg : z -> z list

val print_z : z -> z list

val frac_digits : nat -> z -> z -> z list

val strip_zeros_rev : z list -> z list

val print_q : q -> z list

val b01 : bool -> z list

val print_aval : aval -> z list

val merge_attribute : attr -> attr list -> attr list

val merge_same_name : attr list -> attr list

val join_sp : z list list -> z list

val render_attr : attr -> z list

val indent : bool -> nat -> z list

val render : bool -> nat -> node -> z list

val replace_html_char : z -> z list

val escape_html_text : z list -> z list

type style_piece =
| Lit of z list
| HFontFamily
| HFill
| HBackground
| HStrokeColor
| HFontSize
| HStrokeWidth
| HLegend

val style_template : style_piece list

val default_font_size : z

val default_font_family : z list

val default_fill_color : z list

val default_background : z list

val default_stroke_color : z list

val default_stroke_width : z

val default_scale : z

val default_include_backdrop : bool

val default_include_styles : bool

val default_include_defs : bool

type settings = { font_size : z; font_family : z list; fill_color : z list;
                  background : z list; stroke_color : z list;
                  stroke_width : q; scale : q; include_backdrop : bool;
                  include_styles : bool; include_defs : bool }

val default_settings : settings

val sc : q -> z -> q

val a : string -> aval -> attr

val num : string -> q -> attr

val class_of : string list -> attr

val flag : string -> bool -> string list

val marker_name : marker -> string

val line_attrs : q -> line -> attr list

val fragment_node : q -> fragment -> node

val with_tags : node -> z list list -> node

val fragment_nodes : q -> fragment list -> node list res

val legend_css : (z list * z list) list -> z list

val fill_piece : settings -> z list -> style_piece -> z list

val style_node : settings -> z list -> node

val sattr : string -> string -> attr

val marker_node : string -> string -> string -> string -> node -> node

val marker_circle : string -> string -> node

val defs_node : node

val canvas_of : settings -> cell -> q * q

val canvas_size : settings -> (cell * z) list -> q * q

val backdrop_node : q -> q -> node

val fragments_of : cellbuffer -> (fragment list * fragment list list) res

val doc_emit :
  fragment list -> fragment list list -> z list -> settings -> q -> q -> node
  res

val doc_of : cellbuffer -> settings -> q -> q -> node res

val doc : z list -> settings -> node res

val to_svg_with_settings : z list -> settings -> z list res

val to_svg_string_pretty : z list -> z list res

val to_svg : z list -> z list res

val to_svg_string_compressed : z list -> z list res

val to_svg_with_override_size : z list -> settings -> q -> q -> z list res

type path = z list

type read_result =
| ReadText of z list
| ReadNotUtf8
| ReadError

type env = { read_file : (path -> read_result); stdin : read_result;
             can_write : (path -> bool); parse_usize : (z list -> z option);
             parse_f32 : (z list -> q option) }

type options = { o_inline : bool; o_input : z list option;
                 o_output : path option; o_background : z list option;
                 o_fill : z list option; o_font_family : z list option;
                 o_font_size : z list option; o_stroke_width : z list option;
                 o_stroke_color : z list option; o_scale : z list option }

type outcome =
| Exit of z * z list * bool * (path * z list) list
| Crash

val unescape_nl : z list -> z list

type input_result =
| InText of z list
| InCrash
| InFail

val read_input : env -> options -> input_result

val opt_str : z list option -> z list -> z list

val settings_of : env -> options -> settings option

val run : env -> options -> outcome

type entry = { e_name : z list; e_ext : z list; e_is_file : bool;
               e_content : read_result }

type file_result =
| FileOk of (path * z list)
| FileFailed
| FileCrash

val convert_file : env -> (z list -> path) -> entry -> file_result

val matching : z list -> entry -> bool

val build_loop :
  env -> (z list -> path) -> z list -> entry list -> ((path * z list)
  list * nat) option

val build : env -> bool -> (z list -> path) -> z list -> entry list -> outcome

val server_hello : z list

val utf8_encode_char : z -> z list

val utf8_encode : z list -> z list

val cont : z -> bool

val utf8_decode_char : z list -> (z * z list) option

val utf8_decode_fuel : nat -> z list -> z list option

val utf8_decode : z list -> z list option

type meth =
| GET
| POST
| OtherMethod

val handle : meth -> bool -> z list -> z * z list

val join : z list -> z list list -> z list

val commas : z list list -> z list

val dots : z list -> z list

val sb : bool -> z list

val par : string -> z list -> z list

val show_marker : marker option -> z list

val show_tag : ptag -> z list

val show_pt : point -> z list list

val show_fragment : fragment -> z list

val show_frags : fragment list -> z list

val show_cellchar : (cell * z) -> z list

val show_span : span -> z list

val show_fragspan : bool -> fragspan -> z list

val show_fragspans : bool -> fragspan list -> z list

val show_celltexts : (cell * z list) list -> z list

val bar : z list

val show_site : site -> string

val show_res : z list res -> z list

val op_cells : z list -> z list res

val op_spans : z list -> z list res

val op_merged : bool -> z list -> z list res

val op_contacts : z list -> z list res

val op_frags : bool -> z list -> z list res

val op_behav : z list -> z list res

val op_svg : z -> settings -> q -> q -> z list -> z list res

val op_endorse : bool -> (cell * z) list -> z list

val op_emit :
  z -> settings -> q -> q -> fragment list -> fragment list list -> (cell * z
  list) list -> z list -> cell -> z list

val run_op : z -> settings -> q -> q -> z list -> z list

type cli_case = { cc_files : (z list * read_result) list;
                  cc_stdin : read_result; cc_nowrite : z list list;
                  cc_usize : (z list * z) list; cc_f32 : (z list * q) list;
                  cc_opts : options }

val assoc_l : z list -> (z list * 'a1) list -> 'a1 option

val env_of_case : cli_case -> env

val op_cli : cli_case -> ((z * bool) * z list) * (z list * z list) list

val op_build :
  cli_case -> bool -> z list -> z list -> entry list -> ((z * bool) * z
  list) * (z list * z list) list

val op_http : z -> bool -> z list -> z * z list
