(** Extraction of the executable model for the correspondence check.
    Only the directives of the standard [ExtrOcamlBasic] are used; numbers stay the
    extracted [positive]/[Z]/[N]/[nat] inductives. *)
Require Import SB.Model.Show SB.Model.Lib SB.Model.Cli.
From Coq Require Import Extraction ExtrOcamlBasic QArith.
Extraction Language OCaml.
Extraction "Extract/model.ml" run_op op_endorse op_emit op_http op_cli op_build CliCase SB.Model.Cli.Options SB.Model.Cli.Entry SB.Model.Lib.Settings default_settings Qmake.
