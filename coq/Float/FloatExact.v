(** * FloatExact: on the quarter grid the single-precision evaluation of the cross product is
    exact (support for DESIGN.md 3.2; not a property theorem).
    Coordinates of table points are multiples of 1/4 (10 ticks).  [rnd] is rounding to nearest
    even in the binary32 format without overflow (Flocq's [FLT_exp (-149) 24]); a subtraction or
    a product of the float code is [rnd] of the exact result.  For points whose quarter
    coordinates are below 2^11 in absolute value (drawings narrower than 512 columns and
    shorter than 256 rows around the origin) every intermediate result of
    (bx - ax) * (cy - ay) - (by - ay) * (cx - ax) is representable, so the float cross product
    equals the integer cross product of the model divided by 16. *)
From Coq Require Import ZArith Reals Lia Lra.
From Flocq Require Import Core.
Open Scope R_scope.

Definition fexp := FLT_exp (-149) 24.
Definition fmt (x : R) : Prop := generic_format radix2 fexp x.
Definition rnd (x : R) : R := round radix2 fexp ZnearestE x.
Definition fsub (a b : R) : R := rnd (a - b).
Definition fmul (a b : R) : R := rnd (a * b).

Lemma prec24 : Prec_gt_0 24. Proof. unfold Prec_gt_0. lia. Qed.
#[local] Existing Instance prec24.

(** a multiple of 2^e with a mantissa below 2^24 is a binary32 number (e >= -149) *)
Lemma scaled_format (m e : Z) : (Z.abs m < 2 ^ 24)%Z -> (-149 <= e)%Z -> fmt (IZR m * bpow radix2 e).
Proof.
  intros Hm He. apply generic_format_FLT. apply (FLT_spec radix2 (-149) 24 _ (Float radix2 m e)).
  - unfold F2R; cbn [Fnum Fexp]. reflexivity.
  - cbn [Fnum]. exact Hm.
  - cbn [Fexp]. exact He.
Qed.
Lemma rnd_exact x : fmt x -> rnd x = x.
Proof. intros H. apply round_generic; [apply valid_rnd_N|exact H]. Qed.

Definition q4 (k : Z) : R := IZR k * bpow radix2 (-2).     (* k / 4 *)
Definition q16 (k : Z) : R := IZR k * bpow radix2 (-4).    (* k / 16 *)

Lemma q4_sub a b : q4 a - q4 b = q4 (a - b).
Proof. unfold q4. rewrite minus_IZR. ring. Qed.
Lemma q4_mul a b : q4 a * q4 b = q16 (a * b).
Proof. unfold q4, q16. rewrite mult_IZR. replace (bpow radix2 (-4)) with (bpow radix2 (-2) * bpow radix2 (-2)) by (rewrite <- bpow_plus; reflexivity). ring. Qed.
Lemma q16_sub a b : q16 a - q16 b = q16 (a - b).
Proof. unfold q16. rewrite minus_IZR. ring. Qed.

Lemma fsub_q4 a b : (Z.abs (a - b) < 2 ^ 24)%Z -> fsub (q4 a) (q4 b) = q4 (a - b).
Proof. intros H. unfold fsub. rewrite q4_sub. apply rnd_exact. apply scaled_format; [exact H|lia]. Qed.
Lemma fmul_q4 a b : (Z.abs (a * b) < 2 ^ 24)%Z -> fmul (q4 a) (q4 b) = q16 (a * b).
Proof. intros H. unfold fmul. rewrite q4_mul. apply rnd_exact. apply scaled_format; [exact H|lia]. Qed.
Lemma fsub_q16 a b : (Z.abs (a - b) < 2 ^ 24)%Z -> fsub (q16 a) (q16 b) = q16 (a - b).
Proof. intros H. unfold fsub. rewrite q16_sub. apply rnd_exact. apply scaled_format; [exact H|lia]. Qed.

(** the cross product as the float code evaluates it, and as the model does (in quarter units) *)
Definition cross_f32 (ax ay bx by_ cx cy : R) : R :=
  fsub (fmul (fsub bx ax) (fsub cy ay)) (fmul (fsub by_ ay) (fsub cx ax)).
Definition cross_z (ax ay bx by_ cx cy : Z) : Z := ((bx - ax) * (cy - ay) - (by_ - ay) * (cx - ax))%Z.

Theorem cross_f32_exact (ax ay bx by_ cx cy : Z) :
  (0 <= ax < 2 ^ 11 /\ 0 <= bx < 2 ^ 11 /\ 0 <= cx < 2 ^ 11 /\ 0 <= ay < 2 ^ 12 /\ 0 <= by_ < 2 ^ 12 /\ 0 <= cy < 2 ^ 12)%Z ->
  cross_f32 (q4 ax) (q4 ay) (q4 bx) (q4 by_) (q4 cx) (q4 cy) = q16 (cross_z ax ay bx by_ cx cy).
Proof.
  intros [Hax [Hbx [Hcx [Hay [Hby Hcy]]]]]. unfold cross_f32, cross_z.
  assert (Dx1 : (Z.abs (bx - ax) < 2 ^ 11)%Z) by lia. assert (Dx2 : (Z.abs (cx - ax) < 2 ^ 11)%Z) by lia.
  assert (Dy1 : (Z.abs (cy - ay) < 2 ^ 12)%Z) by lia. assert (Dy2 : (Z.abs (by_ - ay) < 2 ^ 12)%Z) by lia.
  assert (P : forall u v, (Z.abs u < 2 ^ 11 -> Z.abs v < 2 ^ 12 -> Z.abs (u * v) < 2 ^ 23)%Z).
  { intros u v Hu Hv. rewrite Z.abs_mul. change (2 ^ 23)%Z with (2 ^ 11 * 2 ^ 12)%Z. apply Z.mul_lt_mono_nonneg; try apply Z.abs_nonneg; assumption. }
  pose proof (P _ _ Dx1 Dy1) as P1. pose proof (P _ _ Dx2 Dy2) as P2. rewrite (Z.mul_comm (cx - ax)) in P2.
  rewrite !fsub_q4 by lia. rewrite !fmul_q4 by lia. apply fsub_q16. lia.
Qed.

(** hence the sign tests of the float code agree with those of the model on that domain *)
Corollary cross_f32_zero (ax ay bx by_ cx cy : Z) :
  (0 <= ax < 2 ^ 11 /\ 0 <= bx < 2 ^ 11 /\ 0 <= cx < 2 ^ 11 /\ 0 <= ay < 2 ^ 12 /\ 0 <= by_ < 2 ^ 12 /\ 0 <= cy < 2 ^ 12)%Z ->
  cross_f32 (q4 ax) (q4 ay) (q4 bx) (q4 by_) (q4 cx) (q4 cy) = 0 <-> cross_z ax ay bx by_ cx cy = 0%Z.
Proof.
  intros H. rewrite (cross_f32_exact _ _ _ _ _ _ H). unfold q16. split.
  - intros E. apply Rmult_integral in E. destruct E as [E|E]; [apply eq_IZR; exact E|]. pose proof (bpow_gt_0 radix2 (-4)). lra.
  - intros ->. ring.
Qed.
Print Assumptions cross_f32_exact.
