#!/usr/bin/env python3
"""Source facts the hand-written model relies on and that running the code cannot show
(container kinds, lazily initialised statics, which maps are iterated).  Writes a JSON list
of {name, ok, props, detail}; a failed anchor breaks the tie of the listed properties only."""
import re, sys, os, json, glob

def strip_comments(s):
    s = re.sub(r'/\*.*?\*/', '', s, flags=re.S)
    return re.sub(r'//[^\n]*', '', s)
def norm(s): return re.sub(r'\s+', '', strip_comments(s))

def main(repo, out):
    src = os.path.join(repo, 'crates/svgbob/src')
    rd = lambda p: open(os.path.join(src, p)).read()
    res = []
    def anchor(name, props, ok, detail=''):
        res.append({'name': name, 'props': props, 'ok': bool(ok), 'detail': detail})
    fb = norm(rd('buffer/fragment_buffer.rs'))
    anchor('FragmentBuffer is a BTreeMap<Cell, Vec<FragmentSpan>>', ['C07'],
           'pubstructFragmentBuffer(BTreeMap<Cell,Vec<FragmentSpan>>);' in fb)
    cb = norm(rd('buffer/cell_buffer.rs'))
    anchor('CellBuffer.map is a BTreeMap<Cell, char>', ['C07'], 'map:BTreeMap<Cell,char>,' in cb)
    pb = norm(rd('buffer/property_buffer.rs'))
    anchor("PropertyBuffer is a HashMap<Cell, &Property> (the one hash map that is iterated; its order is the model's parameter)", ['C07'],
           "pubstructPropertyBuffer<'p>(HashMap<Cell,&'pProperty>);" in pb)
    # every static of the map modules is a Lazy
    bad = []
    for f in glob.glob(os.path.join(src, 'map', '*.rs')):
        t = strip_comments(open(f).read())
        for m in re.finditer(r'\bstatic\s+(\w+)\s*:\s*([A-Za-z_:]+)', t):
            if m.group(2) != 'Lazy': bad.append('%s:%s' % (os.path.basename(f), m.group(1)))
    anchor('every static table is a once_cell Lazy', ['C07'], not bad, ', '.join(bad))
    # hash maps other than PropertyBuffer are only looked up, never iterated
    it = []
    for f in glob.glob(os.path.join(src, '**', '*.rs'), recursive=True):
        if f.endswith('test_circle_map.rs') or f.endswith('test_span.rs'): continue
        t = strip_comments(open(f).read())
        t = re.sub(r'#\[cfg\(test\)\]\s*mod tests \{.*', '', t, flags=re.S)
        for name in ('UNICODE_PROPERTIES', 'DIAMETER_CIRCLE'):
            for m in re.finditer(name + r'\s*\.\s*(iter|values|keys|into_iter|drain)\b', t):
                it.append('%s:%s.%s' % (os.path.basename(f), name, m.group(1)))
    anchor('the lookup-only hash maps UNICODE_PROPERTIES and DIAMETER_CIRCLE are never iterated', ['C07'], not it, ', '.join(it))
    hm = []
    for f in glob.glob(os.path.join(src, '**', '*.rs'), recursive=True):
        t = strip_comments(open(f).read())
        for m in re.finditer(r'\b(HashMap|HashSet)\s*<', t):
            hm.append(os.path.relpath(f, src))
    allowed = {'buffer/property_buffer.rs', 'map/unicode_map.rs', 'map/circle_map.rs'}
    extra = sorted(set(hm) - allowed)
    anchor('no hash container outside property_buffer.rs, unicode_map.rs, circle_map.rs', ['C07'], not extra, ', '.join(extra))
    # (the five entry points of lib.rs are tied to Lib.v by running all of them on every input of C18, not by their text)
    json.dump(res, open(out, 'w'), indent=1)
    for r in res:
        if not r['ok']: print('ANCHOR-FAILED: %s %s' % (r['name'], r['detail']))

if __name__ == '__main__':
    main(sys.argv[1], sys.argv[2])
