#!/usr/bin/env python3
"""Translate crates/svgbob/src/map/ascii_map.rs into Gen/AsciiMap.v.

The table is rustfmt-regular.  This parser accepts exactly the subset it uses and fails
loudly (exit 3, message on stderr) on anything else: a construct outside the subset is a
broken tie, never a silent default.  Named points, units and radii are evaluated from
the source's own `let` definitions and from cell_grid.rs, in ticks (1/40 cell width).
"""
import re, sys, os
from fractions import Fraction as F

class TranslateError(Exception):
    pass

def strip_comments(s):
    out = []; i = 0; n = len(s)
    while i < n:
        if s.startswith('//', i):
            j = s.find('\n', i); i = n if j < 0 else j
        elif s[i] == "'":
            m = re.match(r"'(\\u\{[0-9a-fA-F]+\}|\\.|[^\\'])'", s[i:])
            if m: out.append(m.group(0)); i += len(m.group(0))
            else: out.append(s[i]); i += 1
        elif s.startswith('/*', i):
            j = s.find('*/', i); i = j + 2
        else:
            out.append(s[i]); i += 1
    return ''.join(out)

def char_value(lit):
    body = lit[1:-1]
    if body.startswith('\\u{'): return int(body[3:-1], 16)
    if body.startswith('\\'):
        m = {'n': 10, 'r': 13, 't': 9, '\\': 92, "'": 39, '"': 34, '0': 0}
        if body[1] not in m: raise TranslateError('unknown escape ' + lit)
        return m[body[1]]
    if len(body) != 1: raise TranslateError('bad char literal ' + lit)
    return ord(body)

def grid_constants(repo):
    """cell_grid.rs: named points, cell size and slices, evaluated"""
    src = open(os.path.join(repo, 'crates/svgbob/src/buffer/cell_buffer/cell/cell_grid.rs')).read()
    src = strip_comments(src)
    def fn_body(name):
        m = re.search(r'fn\s+%s\s*\(\s*\)\s*->\s*(?:f32|usize)\s*\{\s*([^}]*?)\s*\}' % name, src)
        if not m: raise TranslateError('cell_grid.rs: no fn %s' % name)
        return m.group(1).strip()
    width = F(fn_body('width')); height = F(fn_body('height'))
    hs = int(fn_body('horizontal_slices')); vs = int(fn_body('vertical_slices'))
    if fn_body('unit_x').replace(' ', '') != 'Self::width()/Self::horizontal_slices()asf32':
        raise TranslateError('cell_grid.rs: unit_x changed: ' + fn_body('unit_x'))
    if fn_body('unit_y').replace(' ', '') != 'Self::height()/Self::vertical_slices()asf32':
        raise TranslateError('cell_grid.rs: unit_y changed: ' + fn_body('unit_y'))
    m = re.search(r'fn\s+point\s*\(x:\s*usize,\s*y:\s*usize\)\s*->\s*Point\s*\{(.*?)\n    \}', src, re.S)
    if not m or re.sub(r'\s+', '', m.group(1)) != 'letpx=xasf32*Self::unit_x();letpy=yasf32*Self::unit_y();Point::new(px,py)':
        raise TranslateError('cell_grid.rs: fn point changed')
    ux = width / hs; uy = height / vs
    pts = {}
    for m in re.finditer(r'pub fn ([a-y])\(\)\s*->\s*Point\s*\{\s*Self::point\((\d+),\s*(\d+)\)\s*\}', src):
        pts[m.group(1)] = (int(m.group(2)) * ux, int(m.group(3)) * uy)
    if sorted(pts) != [chr(c) for c in range(ord('a'), ord('y') + 1)]:
        raise TranslateError('cell_grid.rs: named points a..y not all found')
    return dict(width=width, height=height, ux=ux, uy=uy, pts=pts)

TICK = F(1, 40)
def ticks(v, what):
    t = F(v) / TICK
    if t.denominator != 1: raise TranslateError('%s = %s is not a whole number of ticks' % (what, v))
    return int(t)

DIRS = {'top_left': (-1, -1), 'top': (0, -1), 'top_right': (1, -1), 'left': (-1, 0), 'right': (1, 0),
        'bottom_left': (-1, 1), 'bottom': (0, 1), 'bottom_right': (1, 1)}
DIRNAME = {'top_left': 'DTopLeft', 'top': 'DTop', 'top_right': 'DTopRight', 'left': 'DLeft', 'right': 'DRight',
           'bottom_left': 'DBottomLeft', 'bottom': 'DBottom', 'bottom_right': 'DBottomRight'}
TAGS = {'ArrowTopLeft', 'ArrowTop', 'ArrowTopRight', 'ArrowLeft', 'ArrowRight', 'ArrowBottomLeft', 'ArrowBottom',
        'ArrowBottomRight', 'DiamondBullet'}
SIGNALS = {'Faint', 'Weak', 'Medium', 'Strong'}

class Parser:
    def __init__(self, repo):
        self.g = grid_constants(repo)
        src = open(os.path.join(repo, 'crates/svgbob/src/map/ascii_map.rs')).read()
        self.src = src
        pre = strip_comments(src[:src.index('let map:')])
        # Cell::unit(l) = CellGrid::unit_x() * l
        cell_rs = strip_comments(open(os.path.join(repo, 'crates/svgbob/src/buffer/cell_buffer/cell.rs')).read())
        m = re.search(r'pub fn unit\(l: i32\)\s*->\s*f32\s*\{\s*CellGrid::unit_x\(\)\s*\*\s*l as f32\s*\}', cell_rs)
        if not m: raise TranslateError('cell.rs: Cell::unit changed')
        self.env_pts = {}; self.env_num = {}
        for m in re.finditer(r'let\s+(\w+)\s*=\s*([^;]+);', pre):
            name, rhs = m.group(1), re.sub(r'\s+', '', m.group(2))
            mm = re.fullmatch(r'CellGrid::([a-y])\(\)', rhs)
            if mm: self.env_pts[name] = self.g['pts'][mm.group(1)]; continue
            mm = re.fullmatch(r'CellGrid::point\((\d+),(\d+)\)', rhs)
            if mm: self.env_pts[name] = (int(mm.group(1)) * self.g['ux'], int(mm.group(2)) * self.g['uy']); continue
            if rhs == 'Cell::new(0,0)': continue
            try:
                self.env_num[name] = self.num_expr(rhs)
            except TranslateError:
                raise TranslateError('ascii_map.rs: cannot evaluate `let %s = %s`' % (name, m.group(2)))
        body = src[src.index('= vec![', src.index('let map:')) + len('= vec!['):src.index('let mut btree')]
        tail = re.sub(r'\s+', '', strip_comments(src[src.index('let mut btree'):]))
        if tail != 'letmutbtree=BTreeMap::new();for(ch,fragments,closure)inmap{btree.insert(ch,Property::new(ch,fragments,closure));}btree});':
            raise TranslateError('ascii_map.rs: table construction after the vec! changed')
        self.lex(strip_comments(body))

    def num_expr(self, s):
        s = s.strip()
        m = re.fullmatch(r'Cell::unit\((\d+)\)', s)
        if m: return self.g['ux'] * int(m.group(1))
        m = re.fullmatch(r'Cell::unit\((\d+)\)\*(\d+(?:\.\d+)?)', s)
        if m: return self.g['ux'] * int(m.group(1)) * F(m.group(2))
        m = re.fullmatch(r'\((\w+)\+(\w+)\)/(\d+(?:\.\d+)?)', s)
        if m: return (self.env_num[m.group(1)] + self.env_num[m.group(2)]) / F(m.group(3))
        raise TranslateError('unsupported numeric expression ' + s)

    def lex(self, body):
        TOK = re.compile(r"\s*(?:('(?:\\u\{[0-9a-fA-F]+\}|\\.|[^\\'])')|([A-Za-z_][A-Za-z0-9_]*(?:::[A-Za-z_][A-Za-z0-9_]*)*)|(\d+\.\d+|\d+)|(&&|\|\||[(){}\[\],.!|;*\-+/]))")
        toks = []; pos = 0
        while pos < len(body):
            m = TOK.match(body, pos)
            if not m:
                if body[pos:].strip() == '': break
                raise TranslateError('lex error at %r' % body[pos:pos + 40])
            pos = m.end()
            if m.group(1): toks.append(('chr', m.group(1)))
            elif m.group(2): toks.append(('id', m.group(2)))
            elif m.group(3): toks.append(('num', m.group(3)))
            else: toks.append(('p', m.group(4)))
        self.toks = toks; self.i = 0

    def peek(self, k=0): return self.toks[self.i + k] if self.i + k < len(self.toks) else ('eof', '')
    def eat(self, kind=None, val=None):
        t = self.peek()
        if (kind and t[0] != kind) or (val is not None and t[1] != val):
            raise TranslateError('ascii_map.rs: parse error at token %d: got %r, expected %r %r; context %r' % (
                self.i, t, kind, val, ' '.join(x[1] for x in self.toks[max(0, self.i - 10):self.i + 5])))
        self.i += 1; return t[1]
    def vec(self, item):
        self.eat('id', 'vec'); self.eat('p', '!'); self.eat('p', '[')
        out = []
        while self.peek() != ('p', ']'):
            out.append(item())
            if self.peek() == ('p', ','): self.eat()
        self.eat('p', ']'); return out
    def signed_num(self):
        sign = 1
        if self.peek() == ('p', '-'): self.eat(); sign = -1
        return sign * F(self.eat('num'))
    def point(self):
        t = self.eat('id')
        if t == 'cell':
            self.eat('p', '.'); d = self.eat('id'); self.eat('p', '('); self.eat('p', ')'); self.eat('p', '.')
            p = self.eat('id'); self.eat('p', '('); self.eat('p', ')')
            if d not in DIRS or p not in self.g['pts']: raise TranslateError('unknown cell.%s().%s()' % (d, p))
            x, y = self.g['pts'][p]
            pt = (x + DIRS[d][0] * self.g['width'], y + DIRS[d][1] * self.g['height'])
        else:
            if t not in self.env_pts: raise TranslateError('unknown point ' + t)
            pt = self.env_pts[t]
        while self.peek() == ('p', '.') and self.peek(1)[1] in ('adjust', 'adjust_x', 'adjust_y'):
            self.eat(); f = self.eat('id'); self.eat('p', '(')
            args = []
            while self.peek() != ('p', ')'):
                args.append(self.signed_num())
                if self.peek() == ('p', ','): self.eat()
            self.eat('p', ')')
            if f == 'adjust_x' and len(args) == 1: pt = (pt[0] + args[0] * self.g['ux'], pt[1])
            elif f == 'adjust_y' and len(args) == 1: pt = (pt[0], pt[1] + args[0] * self.g['uy'])
            elif f == 'adjust' and len(args) == 2: pt = (pt[0] + args[0] * self.g['ux'], pt[1] + args[1] * self.g['uy'])
            else: raise TranslateError('bad ' + f)
        return '(P %s %s)' % (zlit(ticks(pt[0], 'x')), zlit(ticks(pt[1], 'y')))
    def radius(self):
        t = self.eat('id')
        if t not in self.env_num: raise TranslateError('unknown radius ' + t)
        v = self.env_num[t]
        if self.peek() == ('p', '*'): self.eat(); v = v * F(self.eat('num'))
        return zlit(ticks(v, 'radius'))
    def boolean(self):
        t = self.eat('id')
        if t not in ('true', 'false'): raise TranslateError('expected bool, got ' + t)
        return t
    def frag(self):
        f = self.eat('id'); self.eat('p', '(')
        if f in ('line', 'broken_line'):
            a = self.point(); self.eat('p', ','); b = self.point()
            r = '%s %s %s' % ('fline' if f == 'line' else 'fbroken', a, b)
        elif f == 'arc':
            a = self.point(); self.eat('p', ','); b = self.point(); self.eat('p', ','); r = 'farc %s %s %s' % (a, b, self.radius())
        elif f == 'circle':
            a = self.point(); self.eat('p', ','); rr = self.radius(); self.eat('p', ','); r = 'fcircle %s %s %s' % (a, rr, self.boolean())
        elif f == 'rect':
            a = self.point(); self.eat('p', ','); b = self.point(); self.eat('p', ','); x = self.boolean(); self.eat('p', ','); y = self.boolean()
            r = 'frect %s %s %s %s' % (a, b, x, y)
        elif f == 'polygon':
            pts = self.vec(self.point); self.eat('p', ','); fl = self.boolean(); self.eat('p', ',')
            tags = self.vec(lambda: self.eat('id'))
            for t in tags:
                if t not in TAGS: raise TranslateError('unknown polygon tag ' + t)
            r = 'fpolygon [%s] %s [%s]' % ('; '.join(pts), fl, '; '.join(tags))
        else:
            raise TranslateError('unknown fragment constructor ' + f)
        if self.peek() == ('p', ','): self.eat()
        self.eat('p', ')'); return r
    def atom(self):
        if self.peek() == ('p', '!'): self.eat(); return '(CNot %s)' % self.atom()
        if self.peek() == ('p', '('): self.eat(); e = self.expr(); self.eat('p', ')'); return e
        t = self.eat('id')
        if t == 'true': return 'CTrue'
        if t not in DIRS: raise TranslateError('unknown neighbour ' + t)
        self.eat('p', '.'); m = self.eat('id'); self.eat('p', '(')
        if m == 'is':
            r = '(CIs %s %s)' % (DIRNAME[t], zlit(char_value(self.eat('chr'))))
        elif m in ('line_overlap', 'line_strongly_overlap', 'line_weakly_overlap'):
            lvl = {'line_overlap': 'Medium', 'line_strongly_overlap': 'Strong', 'line_weakly_overlap': 'Weak'}[m]
            a = self.point(); self.eat('p', ','); b = self.point()
            r = '(COverlap %s %s %s %s)' % (DIRNAME[t], lvl, a, b)
        elif m == 'arcs_to':
            a = self.point(); self.eat('p', ','); b = self.point()
            r = '(CArcsTo %s %s %s)' % (DIRNAME[t], a, b)
        else:
            raise TranslateError('unknown condition method ' + m)
        self.eat('p', ')'); return r
    def conj(self):
        e = self.atom()
        while self.peek() == ('p', '&&'): self.eat(); e = '(CAnd %s %s)' % (e, self.atom())
        return e
    def expr(self):
        e = self.conj()
        while self.peek() == ('p', '||'): self.eat(); e = '(COr %s %s)' % (e, self.conj())
        return e
    def sig(self):
        self.eat('p', '('); s = self.eat('id')
        if s not in SIGNALS: raise TranslateError('unknown signal ' + s)
        self.eat('p', ','); fr = self.vec(self.frag)
        if self.peek() == ('p', ','): self.eat()
        self.eat('p', ')'); return '(%s, [%s])' % (s, '; '.join(fr))
    def beh(self):
        self.eat('p', '('); c = self.expr(); self.eat('p', ','); fr = self.vec(self.frag)
        if self.peek() == ('p', ','): self.eat()
        self.eat('p', ')'); return '(%s,\n        [%s])' % (c, '; '.join(fr))
    def entries(self):
        out = []
        while self.peek()[0] != 'eof' and self.peek() != ('p', ']'):
            self.eat('p', '('); ch = char_value(self.eat('chr')); self.eat('p', ','); sigs = self.vec(self.sig); self.eat('p', ',')
            self.eat('id', 'Arc::new'); self.eat('p', '('); self.eat('id', 'move'); self.eat('p', '|')
            ns = []
            while self.peek() != ('p', '|'):
                ns.append(self.eat('id'))
                if self.peek() == ('p', ','): self.eat()
            if ns != ['top_left', 'top', 'top_right', 'left', 'right', 'bottom_left', 'bottom', 'bottom_right']:
                raise TranslateError('closure parameters are not the eight neighbours in order: %r' % ns)
            self.eat('p', '|'); self.eat('p', '{'); bs = self.vec(self.beh); self.eat('p', '}')
            if self.peek() == ('p', ','): self.eat()
            self.eat('p', ')')
            if self.peek() == ('p', ','): self.eat()
            self.eat('p', ')')
            if self.peek() == ('p', ','): self.eat()
            out.append((ch, sigs, bs))
        if self.peek() == ('p', ']'): self.eat()
        if self.peek() == ('p', ';'): self.eat()
        if self.peek()[0] != 'eof': raise TranslateError('trailing tokens after the table: %r' % (self.toks[self.i:self.i + 5],))
        return out

def zlit(n): return str(n) if n >= 0 else '(%d)' % n

def write_if_changed(path, text):
    if os.path.exists(path) and open(path).read() == text: return False
    open(path, 'w').write(text); return True

def main(repo, gen):
    p = Parser(repo)
    ents = p.entries()
    # BTreeMap<char, Property>: a later duplicate key replaces the earlier one; iteration is by key
    table = {}
    for ch, sigs, bs in ents: table[ch] = (sigs, bs)
    out = ['(* GENERATED by translator/rs2v.py from crates/svgbob/src/map/ascii_map.rs and cell_grid.rs. Do not edit. *)',
           'Require Import SB.Model.Base SB.Model.Geom SB.Model.Fragment SB.Model.Property.', '']
    names = []
    for ch in sorted(table):
        sigs, bs = table[ch]
        name = 'ascii_%d' % ch; names.append(name)
        out.append('Definition %s : property := Property %d\n  [%s]\n  [%s].\n' % (
            name, ch, ';\n   '.join(sigs), ';\n     '.join(bs)))
    out.append('Definition ascii_properties : list property :=\n  [%s].\n' % '; '.join(names))
    out.append('Definition grid_cell_width : Z := %d.\nDefinition grid_cell_height : Z := %d.\nDefinition grid_unit_x : Z := %d.\nDefinition grid_unit_y : Z := %d.' % (
        ticks(p.g['width'], 'w'), ticks(p.g['height'], 'h'), ticks(p.g['ux'], 'ux'), ticks(p.g['uy'], 'uy')))
    write_if_changed(os.path.join(gen, 'AsciiMap.v'), '\n'.join(out) + '\n')
    return len(table), sum(len(b) for _, b in table.values())

if __name__ == '__main__':
    try:
        n, b = main(sys.argv[1], sys.argv[2])
        print('ascii_map: %d entries, %d behaviours' % (n, b))
    except TranslateError as e:
        print('TRANSLATE-ERROR: %s' % e, file=sys.stderr); sys.exit(3)
