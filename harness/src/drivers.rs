//! thread and timing drivers
use std::sync::{Arc, Barrier};
use std::time::Instant;

/// threads == 1: run the lines in order on a thread with an 8 MiB stack.
/// threads > 1: every thread runs every line (released together by a barrier so that they
/// race on the lazily initialised tables); thread 0's results are returned and every
/// line on which another thread disagrees is reported as NONDET.
pub fn run_lines(lines: &[String], threads: usize) -> Vec<String> {
    let lines: Arc<Vec<String>> = Arc::new(lines.to_vec());
    let barrier = Arc::new(Barrier::new(threads));
    let mut handles = vec![];
    for t in 0..threads {
        let lines = lines.clone();
        let barrier = barrier.clone();
        handles.push(
            std::thread::Builder::new()
                .stack_size(8 << 20)
                .spawn(move || {
                    barrier.wait();
                    // different threads start at different places so that first use races
                    let n = lines.len();
                    let mut out = vec![String::new(); n];
                    for k in 0..n {
                        let i = (k + t * 7) % n;
                        out[i] = crate::run_line(&lines[i]);
                    }
                    out
                })
                .unwrap(),
        );
    }
    let results: Vec<Vec<String>> = handles
        .into_iter()
        .map(|h| h.join().expect("worker thread died (stack overflow or abort)"))
        .collect();
    let mut out = results[0].clone();
    for (t, r) in results.iter().enumerate().skip(1) {
        for (i, l) in r.iter().enumerate() {
            if *l != results[0][i] {
                let id = l.split('\t').next().unwrap_or("");
                out.push(format!("{}\tNONDET thread={}", id, t));
            }
        }
    }
    out
}

/// id <TAB> microseconds <TAB> output length, one line per case, sequentially
pub fn timed(path: &str) {
    let text = std::fs::read_to_string(path).expect("case file");
    let lines: Vec<String> = text.lines().filter(|l| !l.is_empty()).map(String::from).collect();
    let h = std::thread::Builder::new()
        .stack_size(8 << 20)
        .spawn(move || {
            for l in lines.iter() {
                let t0 = Instant::now();
                let r = crate::run_line(l);
                let us = t0.elapsed().as_micros();
                let mut it = r.splitn(2, '\t');
                let id = it.next().unwrap_or("");
                let rest = it.next().unwrap_or("");
                let status = if rest.starts_with("PANIC") { "PANIC" } else { "OK" };
                println!("{}\t{}\t{}\t{}", id, us, rest.len(), status);
            }
        })
        .unwrap();
    h.join().expect("worker thread died");
}
