//! Runs the svgbob implementation in /repo on case files and dumps tables.
//! Protocol is described in /verif/DESIGN.md (section 4) and in gen/proto.py.
use std::fmt::Write as _;
use std::io::{BufRead, Write};
use std::panic::{catch_unwind, AssertUnwindSafe};
use svgbob::buffer::{Contacts, Span};
use svgbob::fragment::{Fragment, Marker, PolygonTag};
use svgbob::{Cell, CellBuffer, FragmentBuffer, FragmentSpan, Property, Settings};
use unicode_width::UnicodeWidthChar;

mod drivers;

/// a length in ticks (1/40 of a cell width): a whole number of ticks when the f32 is within
/// its own rounding error of one (f32 carries about 7 digits, so the tolerance grows with the
/// magnitude), else a multiple of 1/64 tick, else flagged with '~'
fn q(v: f32) -> String {
    let t = v as f64 * 40.0;
    if !t.is_finite() {
        return format!("~{}", v);
    }
    let r = t.round();
    if (t - r).abs() <= 0.02 + 4e-6 * t.abs() {
        return format!("{}", r as i64);
    }
    let s = (t * 64.0).round();
    if (t * 64.0 - s).abs() > 0.01 + 4e-6 * (t * 64.0).abs() {
        return format!("~{}", v);
    }
    let n = s as i64;
    if n % 64 == 0 {
        format!("{}", n / 64)
    } else {
        format!("{}/64", n)
    }
}

fn esc(s: &str) -> String {
    let mut out = String::with_capacity(s.len());
    for ch in s.chars() {
        let c = ch as u32;
        if (0x20..0x7f).contains(&c) && ch != '\\' {
            out.push(ch);
        } else {
            write!(out, "\\u{{{:x}}}", c).unwrap();
        }
    }
    out
}

fn dots(s: &str) -> String {
    s.chars()
        .map(|c| (c as u32).to_string())
        .collect::<Vec<_>>()
        .join(".")
}

fn undots(s: &str) -> String {
    s.split('.')
        .filter(|t| !t.is_empty())
        .map(|t| char::from_u32(t.parse::<u32>().expect("scalar")).expect("char"))
        .collect()
}

fn ratio(s: &str) -> f32 {
    let mut it = s.split('/');
    let n: f64 = it.next().unwrap().parse().unwrap();
    let d: f64 = it.next().map(|d| d.parse().unwrap()).unwrap_or(1.0);
    (n / d) as f32
}

fn b(x: bool) -> u8 {
    x as u8
}

fn marker(m: &Option<Marker>) -> String {
    match m {
        None => "-".into(),
        Some(m) => m.to_string(),
    }
}

fn tag(t: &PolygonTag) -> &'static str {
    match t {
        PolygonTag::ArrowTopLeft => "ArrowTopLeft",
        PolygonTag::ArrowTop => "ArrowTop",
        PolygonTag::ArrowTopRight => "ArrowTopRight",
        PolygonTag::ArrowLeft => "ArrowLeft",
        PolygonTag::ArrowRight => "ArrowRight",
        PolygonTag::ArrowBottomLeft => "ArrowBottomLeft",
        PolygonTag::ArrowBottom => "ArrowBottom",
        PolygonTag::ArrowBottomRight => "ArrowBottomRight",
        PolygonTag::DiamondBullet => "DiamondBullet",
    }
}

pub fn frag(f: &Fragment) -> String {
    match f {
        Fragment::Line(l) => format!(
            "L({},{},{},{},{})",
            q(l.start.x),
            q(l.start.y),
            q(l.end.x),
            q(l.end.y),
            b(l.is_broken)
        ),
        Fragment::MarkerLine(m) => format!(
            "ML({},{},{},{},{},{},{})",
            q(m.line.start.x),
            q(m.line.start.y),
            q(m.line.end.x),
            q(m.line.end.y),
            b(m.line.is_broken),
            marker(&m.start_marker),
            marker(&m.end_marker)
        ),
        Fragment::Circle(c) => format!(
            "C({},{},{},{})",
            q(c.center.x),
            q(c.center.y),
            q(c.radius),
            b(c.is_filled)
        ),
        Fragment::Arc(a) => format!(
            "A({},{},{},{},{},{},{})",
            q(a.start.x),
            q(a.start.y),
            q(a.end.x),
            q(a.end.y),
            q(a.radius),
            b(a.major_flag),
            b(a.sweep_flag)
        ),
        Fragment::Polygon(p) => format!(
            "P({};{};{})",
            b(p.is_filled),
            p.points
                .iter()
                .map(|p| format!("{},{}", q(p.x), q(p.y)))
                .collect::<Vec<_>>()
                .join(";"),
            p.tags.iter().map(tag).collect::<Vec<_>>().join(",")
        ),
        Fragment::Rect(r) => format!(
            "R({},{},{},{},{},{},{})",
            q(r.start.x),
            q(r.start.y),
            q(r.end.x),
            q(r.end.y),
            b(r.is_filled),
            r.radius.map(q).unwrap_or_else(|| "-".into()),
            b(r.is_broken)
        ),
        Fragment::CellText(t) => {
            format!("CT({},{},{})", t.start.x, t.start.y, dots(&t.content))
        }
        Fragment::Text(t) => {
            format!("T({},{},{})", q(t.start.x), q(t.start.y), dots(&t.text))
        }
    }
}

fn span_str(s: &Span) -> String {
    s.iter()
        .map(|(c, ch)| format!("{},{},{}", c.x, c.y, *ch as u32))
        .collect::<Vec<_>>()
        .join(";")
}

fn frags_str<'a>(fs: impl IntoIterator<Item = &'a FragmentSpan>, with_span: bool) -> String {
    fs.into_iter()
        .map(|f| {
            if with_span {
                format!("{}@{}", frag(&f.fragment), span_str(&f.span))
            } else {
                frag(&f.fragment)
            }
        })
        .collect::<Vec<_>>()
        .join(" ")
}

pub fn settings_of(spec: &str) -> (Settings, f32, f32) {
    let mut s = Settings::default();
    let (mut w, mut h) = (0.0f32, 0.0f32);
    for kv in spec.split(';') {
        if kv.is_empty() {
            continue;
        }
        let (k, v) = kv.split_once('=').expect("k=v");
        match k {
            "scale" => s.scale = ratio(v),
            "fs" => s.font_size = v.parse().unwrap(),
            "sw" => s.stroke_width = ratio(v),
            "bd" => s.include_backdrop = v == "1",
            "st" => s.include_styles = v == "1",
            "df" => s.include_defs = v == "1",
            "ff" => s.font_family = undots(v),
            "fill" => s.fill_color = undots(v),
            "bg" => s.background = undots(v),
            "sc" => s.stroke_color = undots(v),
            "w" => w = ratio(v),
            "h" => h = ratio(v),
            _ => panic!("unknown setting {}", k),
        }
    }
    (s, w, h)
}

fn neighbour<'a>(c: u32, empty: &'a Property) -> std::borrow::Cow<'a, Property> {
    if c == 0 {
        return std::borrow::Cow::Borrowed(empty);
    }
    let ch = char::from_u32(c).unwrap();
    if let Some(p) = svgbob::map::ASCII_PROPERTIES.get(&ch) {
        std::borrow::Cow::Owned(p.clone())
    } else if let Some(p) = svgbob::map::UNICODE_PROPERTIES.get(&ch) {
        std::borrow::Cow::Owned(p.clone())
    } else {
        std::borrow::Cow::Borrowed(empty)
    }
}

fn run_op(op: &str, spec: &str, input: &str) -> String {
    if let Some(entry) = op.strip_prefix("svg:") {
        let (s, w, h) = settings_of(spec);
        let out = match entry {
            "to_svg" => svgbob::to_svg(input),
            "pretty" => svgbob::to_svg_string_pretty(input),
            "compressed" => svgbob::to_svg_string_compressed(input),
            "settings" => svgbob::to_svg_with_settings(input, &s),
            "override" => svgbob::to_svg_with_override_size(input, &s, w, h),
            // one buffer rendered twice through the public API: first with the default settings, then with `s`;
            // the second document must be what a fresh conversion with `s` gives
            "rerender" => {
                let cb = CellBuffer::from(input);
                let (first, _, _): (svgbob::Node<()>, f32, f32) = cb.get_node_with_size(&svgbob::Settings::default());
                let mut sink = String::new();
                first.render(&mut sink).expect("must render");
                let (node, _, _): (svgbob::Node<()>, f32, f32) = cb.get_node_with_size(&s);
                let mut buffer = String::new();
                node.render(&mut buffer).expect("must render");
                buffer
            }
            _ => panic!("unknown entry {}", entry),
        };
        return format!("S {}", esc(&out));
    }
    match op {
        "cells" => {
            let cb = CellBuffer::from(input);
            let cells = cb
                .iter()
                .map(|(c, ch)| format!("{},{},{}", c.x, c.y, *ch as u32))
                .collect::<Vec<_>>()
                .join(";");
            let escd = cb
                .verif_escaped_text()
                .iter()
                .map(|(c, s)| format!("{},{},{}", c.x, c.y, dots(s)))
                .collect::<Vec<_>>()
                .join(";");
            let css = cb
                .verif_css_styles()
                .iter()
                .map(|(n, d)| format!("{}={}", dots(n), dots(d)))
                .collect::<Vec<_>>()
                .join(";");
            let br = cb.verif_last_occupied();
            format!(
                "cells {} | esc {} | css {} | L {} | B {},{}",
                cells,
                escd,
                css,
                dots(&cb.verif_legend_css()),
                br.x,
                br.y
            )
        }
        "spans" => {
            let cb = CellBuffer::from(input);
            let spans: Vec<Span> = (&cb).into();
            spans.iter().map(span_str).collect::<Vec<_>>().join(" | ")
        }
        "merged" | "mergedspan" => {
            let cb = CellBuffer::from(input);
            let spans: Vec<Span> = (&cb).into();
            spans
                .into_iter()
                .map(|s| {
                    let fb = FragmentBuffer::from(s);
                    frags_str(&fb.merge_fragment_spans(), op == "mergedspan")
                })
                .collect::<Vec<_>>()
                .join(" | ")
        }
        "contacts" => {
            let cb = CellBuffer::from(input);
            let spans: Vec<Span> = (&cb).into();
            spans
                .into_iter()
                .map(|s| {
                    let cs: Vec<Contacts> = s.into();
                    cs.iter()
                        .map(|c| frags_str(c.as_ref(), false))
                        .collect::<Vec<_>>()
                        .join(" / ")
                })
                .collect::<Vec<_>>()
                .join(" | ")
        }
        "frags" | "fragspans" => {
            let cb = CellBuffer::from(input);
            let (acc, groups) = cb.verif_endorse();
            let mut out = format!("A {}", frags_str(&acc, op == "fragspans"));
            for g in groups.iter() {
                write!(out, " | G {}", frags_str(g, op == "fragspans")).unwrap();
            }
            let esct = cb
                .verif_escaped_text()
                .iter()
                .map(|(c, s)| format!("{},{},{}", c.x, c.y, dots(s)))
                .collect::<Vec<_>>()
                .join(";");
            write!(out, " | E {}", esct).unwrap();
            write!(out, " | L {}", dots(&cb.verif_legend_css())).unwrap();
            let br = cb.verif_last_occupied();
            write!(out, " | B {},{}", br.x, br.y).unwrap();
            out
        }
        "behav" => {
            let cs: Vec<u32> = input.chars().map(|c| c as u32).collect();
            assert_eq!(cs.len(), 9);
            let empty = Property::empty();
            let ch = char::from_u32(cs[0]).unwrap();
            let me = neighbour(cs[0], &empty);
            if me.ch != ch {
                return "NONE".into();
            }
            let n: Vec<_> = cs[1..].iter().map(|c| neighbour(*c, &empty)).collect();
            let res = (me.behavior)(&n[0], &n[1], &n[2], &n[3], &n[4], &n[5], &n[6], &n[7]);
            res.iter()
                .map(|(ok, fs)| {
                    format!(
                        "{}:{}",
                        b(*ok),
                        fs.iter().map(frag).collect::<Vec<_>>().join(" ")
                    )
                })
                .collect::<Vec<_>>()
                .join(" ; ")
        }
        _ => panic!("unknown op {}", op),
    }
}

pub fn run_line(line: &str) -> String {
    let mut it = line.splitn(4, '\t');
    let id = it.next().unwrap_or("");
    let op = it.next().unwrap_or("");
    let spec = it.next().unwrap_or("");
    let input = undots(&it.next().unwrap_or("").replace(' ', "."));
    let r = catch_unwind(AssertUnwindSafe(|| run_op(op, spec, &input)));
    match r {
        Ok(s) => format!("{}\t{}", id, s),
        Err(e) => {
            let msg = if let Some(s) = e.downcast_ref::<String>() {
                s.clone()
            } else if let Some(s) = e.downcast_ref::<&str>() {
                s.to_string()
            } else {
                "?".into()
            };
            format!("{}\tPANIC {}", id, esc(&msg))
        }
    }
}

fn rle<T: PartialEq + std::fmt::Display + Copy>(f: impl Fn(char) -> T, path: &str) {
    let mut out = std::fs::File::create(path).unwrap();
    let mut start = 0u32;
    let mut cur: Option<T> = None;
    let mut last = 0u32;
    for c in 0..=0x10FFFFu32 {
        let v = char::from_u32(c).map(&f);
        match (v, cur) {
            (Some(v), Some(cv)) if v == cv && last + 1 == c => {}
            _ => {
                if let Some(cv) = cur {
                    writeln!(out, "{} {} {}", start, last, cv).unwrap();
                }
                cur = v;
                start = c;
            }
        }
        if v.is_some() {
            last = c;
        }
    }
    if let Some(cv) = cur {
        writeln!(out, "{} {} {}", start, last, cv).unwrap();
    }
}

fn tables(dir: &str) {
    std::fs::create_dir_all(dir).unwrap();
    // -1 = None
    rle(
        |c| c.width().map(|w| w as i32).unwrap_or(-1),
        &format!("{}/width.txt", dir),
    );
    rle(|c| c.is_whitespace() as i32, &format!("{}/white.txt", dir));
    // circles
    let mut out = std::fs::File::create(format!("{}/circles.txt", dir)).unwrap();
    for (c, span) in svgbob::map::CIRCLES_SPAN.iter() {
        writeln!(
            out,
            "C({},{},{},{})\t{}",
            q(c.center.x),
            q(c.center.y),
            q(c.radius),
            b(c.is_filled),
            span_str(span)
        )
        .unwrap();
    }
    for (name, table) in [
        ("quarter", &*svgbob::map::FLATTENED_QUARTER_ARC_SPAN),
        ("half", &*svgbob::map::FLATTENED_HALF_ARC_SPAN),
        ("three", &*svgbob::map::FLATTENED_THREE_QUARTERS_ARC_SPAN),
    ] {
        let mut out = std::fs::File::create(format!("{}/arcs_{}.txt", dir, name)).unwrap();
        for (_k, (arc, span)) in table.iter() {
            writeln!(
                out,
                "{}\t{}",
                frag(&Fragment::Arc(arc.clone())),
                span_str(span)
            )
            .unwrap();
        }
    }
    // unicode fragments and properties as built (sorted) by the implementation
    let mut out = std::fs::File::create(format!("{}/unicode_fragments.txt", dir)).unwrap();
    for (ch, fs) in svgbob::map::UNICODE_FRAGMENTS.iter() {
        writeln!(
            out,
            "{}\t{}",
            *ch as u32,
            fs.iter().map(frag).collect::<Vec<_>>().join(" ")
        )
        .unwrap();
    }
    let mut out = std::fs::File::create(format!("{}/ascii_keys.txt", dir)).unwrap();
    for (ch, _p) in svgbob::map::ASCII_PROPERTIES.iter() {
        writeln!(out, "{}", *ch as u32).unwrap();
    }
    // style template: sentinel strings mark the holes
    let mut s = Settings::default();
    s.font_family = "\u{e000}FF\u{e001}".into();
    s.fill_color = "\u{e000}FILL\u{e001}".into();
    s.background = "\u{e000}BG\u{e001}".into();
    s.stroke_color = "\u{e000}SC\u{e001}".into();
    s.font_size = 7777777;
    s.stroke_width = 5555.25;
    s.scale = 1.0;
    let svg = svgbob::to_svg_with_settings("\n# Legend:\nzz = {LEGEND}\n", &s);
    std::fs::write(format!("{}/template.svg", dir), svg).unwrap();
    let d = Settings::default();
    std::fs::write(
        format!("{}/settings_default.txt", dir),
        format!(
            "fs={}\nff={}\nfill={}\nbg={}\nsc={}\nsw={}\nscale={}\nbd={}\nst={}\ndf={}\n",
            d.font_size,
            dots(&d.font_family),
            dots(&d.fill_color),
            dots(&d.background),
            dots(&d.stroke_color),
            q(d.stroke_width / 40.0),
            q(d.scale / 40.0),
            b(d.include_backdrop),
            b(d.include_styles),
            b(d.include_defs)
        ),
    )
    .unwrap();
}

fn main() {
    let args: Vec<String> = std::env::args().collect();
    std::panic::set_hook(Box::new(|_| {}));
    match args.get(1).map(|s| s.as_str()) {
        Some("tables") => tables(&args[2]),
        Some("run") => {
            // run <casefile> [threads]
            let f = std::fs::File::open(&args[2]).expect("case file");
            let lines: Vec<String> = std::io::BufReader::new(f)
                .lines()
                .map(|l| l.unwrap())
                .filter(|l| !l.is_empty())
                .collect();
            let threads: usize = args.get(3).map(|s| s.parse().unwrap()).unwrap_or(1);
            let out = drivers::run_lines(&lines, threads);
            let stdout = std::io::stdout();
            let mut w = std::io::BufWriter::new(stdout.lock());
            for l in out {
                writeln!(w, "{}", l).unwrap();
            }
        }
        Some("timed") => drivers::timed(&args[2]),
        _ => {
            eprintln!("usage: harness tables <dir> | run <cases> [threads] | timed <cases>");
            std::process::exit(2);
        }
    }
}
