#!/bin/sh
# independent re-check of every compiled property file and everything it depends on; prints the axioms relied on
cd "$(dirname "$0")/../coq" || exit 2
mods=""; for f in Props/C*.v; do m=$(basename $f .v); mods="$mods SB.Props.$m"; done
exec coqchk -o -silent -R . SB $mods
