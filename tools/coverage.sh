#!/bin/bash
# Which lines of the implementation do the quick checks' inputs reach?  Builds the harness with coverage
# instrumentation (nightly toolchain: llvm-profdata / llvm-cov come with its llvm-tools), replays every
# case file the last quick runs wrote under build/work, and prints the per-file summary and the uncovered
# lines of the conversion path.  An analysis aid for the generators, not a check.   usage: tools/coverage.sh [outdir]
set -e
OUT=${1:-/tmp/svgbob-cov}; mkdir -p "$OUT"
cd "$(dirname "$0")/../harness"
LLVM_PROFILE_FILE="$OUT/build_%p.profraw" CARGO_NET_OFFLINE=true CARGO_TARGET_DIR="$OUT/target" RUSTFLAGS="-C instrument-coverage" cargo +nightly build --offline >/dev/null 2>&1   # build scripts are instrumented too: keep their profiles out of /repo
LT=$(ls -d ~/.rustup/toolchains/nightly-x86_64-unknown-linux-gnu/lib/rustlib/*/bin)
rm -f "$OUT"/*.profraw; n=0
for f in ../build/work/C*_quick/impl/cases_*.txt; do n=$((n+1)); LLVM_PROFILE_FILE="$OUT/p_$n.profraw" timeout 300 "$OUT/target/debug/svgbob-verif-harness" run "$f" 1 >/dev/null 2>&1 || true; done
"$LT/llvm-profdata" merge -sparse "$OUT"/*.profraw -o "$OUT/all.profdata"
"$LT/llvm-cov" report "$OUT/target/debug/svgbob-verif-harness" -instr-profile="$OUT/all.profdata" 2>/dev/null | grep -E "crates/svgbob/src" \
  | awk '{printf "%-60s lines %5s missed %5s\n", $1, $8, $9}' | sed 's#.*/crates/svgbob/src/##'
for f in buffer/cell_buffer.rs buffer/cell_buffer/endorse.rs buffer/cell_buffer/span.rs buffer/fragment_buffer/fragment_tree.rs merge.rs map/ascii_map.rs map/unicode_map.rs lib.rs; do
  echo "=== uncovered in $f"
  "$LT/llvm-cov" show "$OUT/target/debug/svgbob-verif-harness" -instr-profile="$OUT/all.profdata" /repo/crates/svgbob/src/$f 2>/dev/null | awk -F'|' '$2 ~ /^ *0$/ {print $1 "|" $3}' | head -40
done
