#!/bin/sh
# builds the model driver from the extracted model.ml into /verif/build/driver
set -e
D=/verif/build/driver
mkdir -p $D
cp /verif/coq/Extract/model.ml /verif/coq/Extract/model.mli /verif/driver/driver.ml $D/
cd $D
ocamlfind ocamlopt -O2 -w -a -package str model.mli model.ml driver.ml -o model_driver 2>/dev/null || ocamlfind ocamlopt -w -a model.mli model.ml driver.ml -o model_driver
