(* Runs the extracted model (Model) on a case file; same protocol as the Rust harness.
   Only glue lives here: integer and UTF-8 conversion, case-file framing. *)
open Model

let rec pos_of_int n = if n = 1 then XH else if n land 1 = 1 then XI (pos_of_int (n lsr 1)) else XO (pos_of_int (n lsr 1))
let z_of_int n = if n = 0 then Z0 else if n > 0 then Zpos (pos_of_int n) else Zneg (pos_of_int (-n))
let rec int_of_pos = function XH -> 1 | XO p -> 2 * int_of_pos p | XI p -> 2 * int_of_pos p + 1
let int_of_z = function Z0 -> 0 | Zpos p -> int_of_pos p | Zneg p -> - (int_of_pos p)

let split_on c s = String.split_on_char c s
let scalars sep s = List.filter_map (fun t -> if t = "" then None else Some (z_of_int (int_of_string t))) (split_on sep s)

let ratio s =
  match split_on '/' s with
  | [n] -> { qnum = z_of_int (int_of_string n); qden = XH }
  | [n; d] -> { qnum = z_of_int (int_of_string n); qden = pos_of_int (int_of_string d) }
  | _ -> failwith "ratio"

let zero_q = { qnum = Z0; qden = XH }

let settings_of spec =
  let st = ref default_settings and w = ref zero_q and h = ref zero_q in
  List.iter (fun kv ->
    if kv <> "" then
      match String.index_opt kv '=' with
      | None -> failwith "k=v"
      | Some i ->
        let k = String.sub kv 0 i and v = String.sub kv (i+1) (String.length kv - i - 1) in
        (match k with
         | "scale" -> st := { !st with scale = ratio v }
         | "fs" -> st := { !st with font_size = z_of_int (int_of_string v) }
         | "sw" -> st := { !st with stroke_width = ratio v }
         | "bd" -> st := { !st with include_backdrop = (v = "1") }
         | "st" -> st := { !st with include_styles = (v = "1") }
         | "df" -> st := { !st with include_defs = (v = "1") }
         | "ff" -> st := { !st with font_family = scalars '.' v }
         | "fill" -> st := { !st with fill_color = scalars '.' v }
         | "bg" -> st := { !st with background = scalars '.' v }
         | "sc" -> st := { !st with stroke_color = scalars '.' v }
         | "w" -> w := ratio v
         | "h" -> h := ratio v
         | _ -> failwith ("unknown setting " ^ k)))
    (split_on ';' spec);
  (!st, !w, !h)

let op_code op =
  match op with
  | "svg:to_svg" -> 0 | "svg:pretty" -> 1 | "svg:compressed" -> 2 | "svg:settings" -> 3 | "svg:override" -> 4
  | "cells" -> 10 | "spans" -> 11 | "merged" -> 12 | "mergedspan" -> 13 | "contacts" -> 14
  | "frags" -> 15 | "fragspans" -> 16 | "behav" -> 17
  | _ -> failwith ("unknown op " ^ op)

(* scalar list -> text; raw = false escapes like the harness's esc() *)
let add_utf8 b c =
  if c < 0x80 then Buffer.add_char b (Char.chr c)
  else if c < 0x800 then (Buffer.add_char b (Char.chr (0xC0 lor (c lsr 6))); Buffer.add_char b (Char.chr (0x80 lor (c land 0x3F))))
  else if c < 0x10000 then (Buffer.add_char b (Char.chr (0xE0 lor (c lsr 12))); Buffer.add_char b (Char.chr (0x80 lor ((c lsr 6) land 0x3F))); Buffer.add_char b (Char.chr (0x80 lor (c land 0x3F))))
  else (Buffer.add_char b (Char.chr (0xF0 lor (c lsr 18))); Buffer.add_char b (Char.chr (0x80 lor ((c lsr 12) land 0x3F))); Buffer.add_char b (Char.chr (0x80 lor ((c lsr 6) land 0x3F))); Buffer.add_char b (Char.chr (0x80 lor (c land 0x3F))))

let text_of escape zs =
  let b = Buffer.create 1024 in
  List.iter (fun zc ->
    let c = int_of_z zc in
    if escape then
      (if c >= 0x20 && c < 0x7f && c <> 0x5c then Buffer.add_char b (Char.chr c)
       else Buffer.add_string b (Printf.sprintf "\\u{%x}" c))
    else add_utf8 b c) zs;
  Buffer.contents b

let run_line line =
  match split_on '\t' line with
  | id :: op :: spec :: rest ->
    let input = scalars ' ' (String.concat "\t" rest) in
    let (st, w, h) = settings_of spec in
    let code = op_code op in
    let out = run_op (z_of_int code) st w h input in
    let is_err = (match out with Zpos _ :: _ -> (text_of false (List.filteri (fun i _ -> i < 4) out) = "ERR ") | _ -> false) in
    if code < 10 && not is_err then id ^ "\tS " ^ text_of true out
    else id ^ "\t" ^ text_of false out
  | _ -> failwith "bad case line"

let () =
  let ic = open_in Sys.argv.(1) in
  (try
     while true do
       let line = input_line ic in
       if line <> "" then print_endline (run_line line)
     done
   with End_of_file -> ());
  close_in ic
