(* Runs the extracted model (Model) on a case file; same protocol as the Rust harness.
   Only glue lives here: integer and UTF-8 conversion, case-file framing. *)
type ostr = string
open Model

let rec pos_of_int n = if n = 1 then XH else if n land 1 = 1 then XI (pos_of_int (n lsr 1)) else XO (pos_of_int (n lsr 1))
let z_of_int n = if n = 0 then Z0 else if n > 0 then Zpos (pos_of_int n) else Zneg (pos_of_int (-n))
let rec int_of_pos = function XH -> 1 | XO p -> 2 * int_of_pos p | XI p -> 2 * int_of_pos p + 1
let int_of_z = function Z0 -> 0 | Zpos p -> int_of_pos p | Zneg p -> - (int_of_pos p)

let split_on c s = String.split_on_char c s
let scalars sep s = List.filter_map (fun t -> if t = "" then None else Some (z_of_int (int_of_string t))) (split_on sep s)

let ratio s =
  match split_on '/' s with
  | [n] -> { qnum = z_of_int (int_of_string n); qden = XH }
  | [n; d] -> { qnum = z_of_int (int_of_string n); qden = pos_of_int (int_of_string d) }
  | _ -> failwith "ratio"

let zero_q = { qnum = Z0; qden = XH }

let settings_of spec =
  let st = ref default_settings and w = ref zero_q and h = ref zero_q in
  List.iter (fun kv ->
    if kv <> "" then
      match String.index_opt kv '=' with
      | None -> failwith "k=v"
      | Some i ->
        let k = String.sub kv 0 i and v = String.sub kv (i+1) (String.length kv - i - 1) in
        (match k with
         | "scale" -> st := { !st with scale = ratio v }
         | "fs" -> st := { !st with font_size = z_of_int (int_of_string v) }
         | "sw" -> st := { !st with stroke_width = ratio v }
         | "bd" -> st := { !st with include_backdrop = (v = "1") }
         | "st" -> st := { !st with include_styles = (v = "1") }
         | "df" -> st := { !st with include_defs = (v = "1") }
         | "ff" -> st := { !st with font_family = scalars '.' v }
         | "fill" -> st := { !st with fill_color = scalars '.' v }
         | "bg" -> st := { !st with background = scalars '.' v }
         | "sc" -> st := { !st with stroke_color = scalars '.' v }
         | "w" -> w := ratio v
         | "h" -> h := ratio v
         | _ -> failwith ("unknown setting " ^ k)))
    (split_on ';' spec);
  (!st, !w, !h)

let op_code op =
  match op with
  | "svg:to_svg" -> 0 | "svg:pretty" -> 1 | "svg:compressed" -> 2 | "svg:settings" -> 3 | "svg:rerender" -> 3 | "svg:override" -> 4
  | "cells" -> 10 | "spans" -> 11 | "merged" -> 12 | "mergedspan" -> 13 | "contacts" -> 14
  | "frags" -> 15 | "fragspans" -> 16 | "behav" -> 17
  | _ -> failwith ("unknown op " ^ op)

(* scalar list -> text; raw = false escapes like the harness's esc() *)
let add_utf8 b c =
  if c < 0x80 then Buffer.add_char b (Char.chr c)
  else if c < 0x800 then (Buffer.add_char b (Char.chr (0xC0 lor (c lsr 6))); Buffer.add_char b (Char.chr (0x80 lor (c land 0x3F))))
  else if c < 0x10000 then (Buffer.add_char b (Char.chr (0xE0 lor (c lsr 12))); Buffer.add_char b (Char.chr (0x80 lor ((c lsr 6) land 0x3F))); Buffer.add_char b (Char.chr (0x80 lor (c land 0x3F))))
  else (Buffer.add_char b (Char.chr (0xF0 lor (c lsr 18))); Buffer.add_char b (Char.chr (0x80 lor ((c lsr 12) land 0x3F))); Buffer.add_char b (Char.chr (0x80 lor ((c lsr 6) land 0x3F))); Buffer.add_char b (Char.chr (0x80 lor (c land 0x3F))))

let text_of escape zs =
  let b = Buffer.create 1024 in
  List.iter (fun zc ->
    let c = int_of_z zc in
    if escape then
      (if c >= 0x20 && c < 0x7f && c <> 0x5c then Buffer.add_char b (Char.chr c)
       else Buffer.add_string b (Printf.sprintf "\\u{%x}" c))
    else add_utf8 b c) zs;
  Buffer.contents b

(* ---- parsing the harness's dump format into model values (stage-local operations) ---- *)
exception Unrep of ostr
let zint s = match int_of_string_opt s with Some n -> z_of_int n | None -> raise (Unrep s)
let pt x y = { px = zint x; py = zint y }
let bool_of s = (s = "1")
let marker_of = function
  | "-" -> None | "arrow" -> Some MArrow | "clear_arrow" -> Some MClearArrow | "circle" -> Some MCircle
  | "square" -> Some MSquare | "diamond" -> Some MDiamond | "open_circle" -> Some MOpenCircle
  | "big_open_circle" -> Some MBigOpenCircle | s -> raise (Unrep s)
let ptag_of = function
  | "ArrowTopLeft" -> ArrowTopLeft | "ArrowTop" -> ArrowTop | "ArrowTopRight" -> ArrowTopRight
  | "ArrowLeft" -> ArrowLeft | "ArrowRight" -> ArrowRight | "ArrowBottomLeft" -> ArrowBottomLeft
  | "ArrowBottom" -> ArrowBottom | "ArrowBottomRight" -> ArrowBottomRight | "DiamondBullet" -> DiamondBullet
  | s -> raise (Unrep s)
let fragment_of (s : ostr) : fragment =
  let s = (match String.index_opt s '@' with Some i -> String.sub s 0 i | None -> s) in
  let i = (try String.index s '(' with Not_found -> raise (Unrep s)) in
  let kind = String.sub s 0 i and body = String.sub s (i + 1) (String.length s - i - 2) in
  let f = split_on ',' body in
  match kind, f with
  | "L", [a; b; c; d; e] -> FLine { lstart = pt a b; lend = pt c d; lbroken = bool_of e }
  | "ML", [a; b; c; d; e; m1; m2] ->
    FMarkerLine { mlline = { lstart = pt a b; lend = pt c d; lbroken = bool_of e }; mlstart = marker_of m1; mlend = marker_of m2 }
  | "C", [a; b; r; fl] -> FCircle { ccenter = pt a b; cradius = zint r; cfilled = bool_of fl }
  | "A", [a; b; c; d; r; mj; sw] -> FArc { astart = pt a b; aend = pt c d; aradius = zint r; amajor = bool_of mj; asweep = bool_of sw }
  | "R", [a; b; c; d; fl; r; br] ->
    FRect { rstart = pt a b; rend = pt c d; rfilled = bool_of fl; rradius = (if r = "-" then None else Some (zint r)); rbroken = bool_of br }
  | "CT", [x; y; content] -> FCellText { ctstart = { cx = zint x; cy = zint y }; ctcontent = scalars '.' content }
  | "CT", [x; y] -> FCellText { ctstart = { cx = zint x; cy = zint y }; ctcontent = [] }
  | "P", _ ->
    (match split_on ';' body with
     | fl :: rest ->
       let n = List.length rest in
       let pts = List.filteri (fun k _ -> k < n - 1) rest and tags = List.nth rest (n - 1) in
       FPolygon { ppoints = List.map (fun p -> match split_on ',' p with [x; y] -> pt x y | _ -> raise (Unrep p)) pts;
                  pfilled = bool_of fl;
                  ptags = List.filter_map (fun t -> if t = "" then None else Some (ptag_of t)) (split_on ',' tags) }
     | [] -> raise (Unrep s))
  | _ -> raise (Unrep s)
let words s = List.filter (fun t -> t <> "") (split_on ' ' s)
let cellchar_of s = match split_on ',' s with
  | [x; y; c] -> ({ cx = zint x; cy = zint y }, zint c) | _ -> raise (Unrep s)
let cells_of s = List.filter_map (fun t -> if t = "" then None else Some (cellchar_of t)) (split_on ';' s)
let celltext_of s = match split_on ',' s with
  | [x; y; c] -> ({ cx = zint x; cy = zint y }, scalars '.' c)
  | [x; y] -> ({ cx = zint x; cy = zint y }, [])
  | _ -> raise (Unrep s)
(* sections are separated by " | " *)
let sections s =
  let rec go acc cur i =
    if i >= String.length s then List.rev (Buffer.contents cur :: acc)
    else if i + 2 < String.length s && s.[i] = ' ' && s.[i+1] = '|' && s.[i+2] = ' ' then
      (let c = Buffer.contents cur in Buffer.clear cur; go (c :: acc) cur (i + 3))
    else (Buffer.add_char cur s.[i]; go acc cur (i + 1)) in
  go [] (Buffer.create 256) 0
let after_tag tg s =
  let n = String.length tg in
  if String.length s >= n && String.sub s 0 n = tg then Some (String.trim (String.sub s n (String.length s - n))) else None

let run_stage id op spec text =
  let (st, w, h) = settings_of spec in
  match op with
  | "endorse" | "endorsespan" -> text_of false (op_endorse (op = "endorsespan") (cells_of (String.trim text)))
  | _ ->
    (* emit:<entry> *)
    let entry = (match op with "emit:to_svg" -> 0 | "emit:pretty" -> 1 | "emit:compressed" -> 2 | "emit:settings" -> 3 | "emit:rerender" -> 3
                              | "emit:override" -> 4 | _ -> failwith ("unknown op " ^ op)) in
    let acc = ref [] and groups = ref [] and esc = ref [] and legend = ref [] and br = ref { cx = Z0; cy = Z0 } in
    List.iter (fun sec ->
      let sec = String.trim sec in
      if sec = "A" then () else
      match after_tag "A " sec with Some r -> acc := List.map fragment_of (words r) | None ->
      if sec = "G" then groups := [] :: !groups else
      match after_tag "G " sec with Some r -> groups := List.map fragment_of (words r) :: !groups | None ->
      if sec = "E" then () else
      match after_tag "E " sec with Some r -> esc := List.filter_map (fun t -> if t = "" then None else Some (celltext_of t)) (split_on ';' r) | None ->
      if sec = "L" then () else
      match after_tag "L " sec with Some r -> legend := scalars '.' r | None ->
      match after_tag "B " sec with Some r -> (match split_on ',' r with [x; y] -> br := { cx = zint x; cy = zint y } | _ -> raise (Unrep r)) | None ->
      raise (Unrep sec)) (sections text);
    let out = op_emit (z_of_int entry) st w h !acc (List.rev !groups) !esc !legend !br in
    let is_err = (match out with Zpos _ :: _ -> (text_of false (List.filteri (fun i _ -> i < 4) out) = "ERR ") | _ -> false) in
    if is_err then text_of false out else "S " ^ text_of true out

(* ---- command-line tool cases: spec is ';'-separated key=value, values are dotted scalars ----
   keys: inline=0/1 input= output= bg= fill= ff= fs= sw= scol= scale=   (options; absent key = option not given)
         file:<path>=T<dots> | N | E      stdin=T<dots> | N      nowrite=<path>
         usize:<str>=<int>   f32:<str>=<n/d>
         build: dir=0/1 outdir=<path> ext=<str> entry:<name>:<ext>:<isfile>=T<dots>|N|E *)
let read_result_of v =
  if v = "N" then ReadNotUtf8 else if v = "E" then ReadError
  else if String.length v >= 1 && v.[0] = 'T' then ReadText (scalars '.' (String.sub v 1 (String.length v - 1)))
  else failwith ("read_result " ^ v)
let cli_of spec =
  let files = ref [] and stdin = ref (ReadText []) and nowrite = ref [] and usz = ref [] and f32 = ref [] in
  let opt = Hashtbl.create 16 in
  let entries = ref [] and dir = ref true and outdir = ref [] and ext = ref [] in
  List.iter (fun kv ->
    if kv <> "" then
      match String.index_opt kv '=' with
      | None -> failwith ("k=v " ^ kv)
      | Some i ->
        let k = String.sub kv 0 i and v = String.sub kv (i+1) (String.length kv - i - 1) in
        let pre p = String.length k > String.length p && String.sub k 0 (String.length p) = p in
        let rest p = String.sub k (String.length p) (String.length k - String.length p) in
        if pre "file:" then files := (scalars '.' (rest "file:"), read_result_of v) :: !files
        else if k = "stdin" then stdin := read_result_of v
        else if k = "nowrite" then nowrite := scalars '.' v :: !nowrite
        else if pre "usize:" then usz := (scalars '.' (rest "usize:"), z_of_int (int_of_string v)) :: !usz
        else if pre "f32:" then f32 := (scalars '.' (rest "f32:"), ratio v) :: !f32
        else if k = "dir" then dir := (v = "1")
        else if k = "outdir" then outdir := scalars '.' v
        else if k = "ext" then ext := scalars '.' v
        else if pre "entry:" then
          (match split_on ':' (rest "entry:") with
           | [nm; ex; isf] -> entries := { e_name = scalars '.' nm; e_ext = scalars '.' ex; e_is_file = (isf = "1"); e_content = read_result_of v } :: !entries
           | _ -> failwith ("entry " ^ k))
        else Hashtbl.replace opt k v)
    (split_on ';' spec);
  let o k = match Hashtbl.find_opt opt k with Some v -> Some (scalars '.' v) | None -> None in
  let opts = { o_inline = (Hashtbl.find_opt opt "inline" = Some "1"); o_input = o "input"; o_output = o "output";
               o_background = o "bg"; o_fill = o "fill"; o_font_family = o "ff"; o_font_size = o "fs"; o_stroke_width = o "sw";
               o_stroke_color = o "scol"; o_scale = o "scale" } in
  ({ cc_files = List.rev !files; cc_stdin = !stdin; cc_nowrite = !nowrite; cc_usize = !usz; cc_f32 = !f32; cc_opts = opts },
   !dir, !outdir, !ext, List.rev !entries)
let dots zs = String.concat "." (List.map (fun z -> string_of_int (int_of_z z)) zs)
let show_outcome (((code, diag), out), ws) =
  Printf.sprintf "EXIT %d DIAG %d OUT %s WRITES %s" (int_of_z code) (if diag then 1 else 0) (text_of true out)
    (String.concat " ;; " (List.map (fun (p, c) -> dots p ^ " = " ^ text_of true c) ws))

let run_http id spec body =
  let m = ref 1 and root = ref true in
  List.iter (fun kv -> match split_on '=' kv with
    | ["m"; v] -> m := (match v with "GET" -> 0 | "POST" -> 1 | _ -> 2)
    | ["root"; v] -> root := (v = "1")
    | _ -> ()) (split_on ';' spec);
  let (status, out) = op_http (z_of_int !m) !root body in
  Printf.sprintf "%s\tHTTP %d %s" id (int_of_z status) (String.concat "." (List.map (fun z -> string_of_int (int_of_z z)) out))

let run_line line =
  match split_on '\t' line with
  | id :: "http" :: spec :: rest -> run_http id spec (scalars ' ' (String.concat "\t" rest))
  | id :: "cli" :: spec :: _ ->
    let (c, _, _, _, _) = cli_of spec in id ^ "\t" ^ show_outcome (op_cli c)
  | id :: "build" :: spec :: _ ->
    let (c, dir, outdir, ext, entries) = cli_of spec in id ^ "\t" ^ show_outcome (op_build c dir outdir ext entries)
  | id :: op :: spec :: rest when (String.length op >= 5 && (String.sub op 0 5 = "emit:" || String.sub op 0 5 = "endor")) ->
    let input = scalars ' ' (String.concat "\t" rest) in
    (try id ^ "\t" ^ run_stage id op spec (text_of false input) with Unrep s -> id ^ "\tUNREP " ^ s)
  | id :: op :: spec :: rest ->
    let input = scalars ' ' (String.concat "\t" rest) in
    let (st, w, h) = settings_of spec in
    let code = op_code op in
    let out = run_op (z_of_int code) st w h input in
    let is_err = (match out with Zpos _ :: _ -> (text_of false (List.filteri (fun i _ -> i < 4) out) = "ERR ") | _ -> false) in
    if code < 10 && not is_err then id ^ "\tS " ^ text_of true out
    else id ^ "\t" ^ text_of false out
  | _ -> failwith "bad case line"

let () =
  let ic = open_in Sys.argv.(1) in
  (try
     while true do
       let line = input_line ic in
       if line <> "" then print_endline (run_line line)
     done
   with End_of_file -> ());
  close_in ic
