From Coq Require Import List Arith Lia Bool.
Import ListNotations.

Section Merge.
Variable A : Type.
Variable merge : A -> A -> option A.

Fixpoint try_merge_rev (groups : list A) (item : A) : option (list A) :=
  match groups with
  | [] => None
  | g :: gs =>
      match try_merge_rev gs item with
      | Some gs' => Some (g :: gs')
      | None => match merge g item with
                | Some m => Some (m :: gs)
                | None => None
                end
      end
  end.

Definition step (groups : list A) (item : A) : list A :=
  match try_merge_rev groups item with
  | Some gs => gs
  | None => groups ++ [item]
  end.

Definition second_pass (items : list A) : list A := fold_left step items [].

Fixpoint merge_rec (fuel : nat) (items : list A) : option (list A) :=
  match fuel with
  | O => None
  | S f => let m := second_pass items in
           if length m <? length items then merge_rec f m else Some m
  end.

Lemma try_merge_rev_length gs x gs' :
  try_merge_rev gs x = Some gs' -> length gs' = length gs.
Proof.
  revert gs'; induction gs as [|g gs IH]; cbn; intros gs' H; [discriminate|].
  destruct (try_merge_rev gs x) as [r|] eqn:E.
  - inversion H; subst; cbn; f_equal; auto.
  - destruct (merge g x); inversion H; subst; reflexivity.
Qed.

Lemma try_merge_rev_none gs x :
  try_merge_rev gs x = None <-> Forall (fun g => merge g x = None) gs.
Proof.
  induction gs as [|g gs IH]; cbn.
  - split; auto.
  - destruct (try_merge_rev gs x) eqn:E.
    + split; [discriminate|]. intros H; inversion H; subst.
      apply IH in H3; discriminate.
    + destruct (merge g x) eqn:M.
      * split; [discriminate|]. intros H; inversion H; congruence.
      * split; auto. intros _. constructor; auto. apply IH; auto.
Qed.

Lemma step_length gs x :
  length (step gs x) = length gs \/ (length (step gs x) = S (length gs) /\ step gs x = gs ++ [x]
     /\ Forall (fun g => merge g x = None) gs).
Proof.
  unfold step. destruct (try_merge_rev gs x) eqn:E.
  - left; eapply try_merge_rev_length; eauto.
  - right; rewrite app_length; cbn; split; [lia|split; auto].
    apply try_merge_rev_none; auto.
Qed.

(* generalised fold *)
Lemma fold_step_length items : forall acc,
  length (fold_left step items acc) <= length acc + length items.
Proof.
  induction items as [|x xs IH]; cbn; intros acc; [lia|].
  specialize (IH (step acc x)).
  destruct (step_length acc x) as [H|[H _]]; lia.
Qed.

Lemma second_pass_length items : length (second_pass items) <= length items.
Proof. unfold second_pass. pose proof (fold_step_length items []). cbn in *; lia. Qed.

(* pairwise unmergeable, earlier with later *)
Inductive unmerge : list A -> Prop :=
| um_nil : unmerge []
| um_snoc l x : unmerge l -> Forall (fun g => merge g x = None) l -> unmerge (l ++ [x]).

Lemma fold_step_full items : forall acc,
  length (fold_left step items acc) = length acc + length items ->
  fold_left step items acc = acc ++ items /\ (unmerge acc -> unmerge (acc ++ items)).
Proof.
  induction items as [|x xs IH]; cbn; intros acc H.
  - rewrite app_nil_r; auto.
  - pose proof (fold_step_length xs (step acc x)) as L.
    destruct (step_length acc x) as [E|[E [E2 F]]].
    + lia.
    + rewrite E2 in *. destruct (IH (acc ++ [x])) as [I1 I2].
      { rewrite app_length in *; cbn in *; lia. }
      rewrite <- app_assoc in *; cbn in *. split; auto.
      intros U. apply I2. constructor; auto.
Qed.

Theorem second_pass_fixpoint items :
  length (second_pass items) = length items ->
  second_pass items = items /\ unmerge items.
Proof.
  intros H. destruct (fold_step_full items []) as [E U]; [cbn; auto|].
  cbn in *. split; auto. apply U; constructor.
Qed.

Theorem merge_rec_fuel items : forall fuel, length items < fuel ->
  exists r, merge_rec fuel items = Some r /\ unmerge r.
Proof.
  intros fuel; revert items; induction fuel as [|f IH]; intros items H; [lia|].
  cbn [merge_rec]. pose proof (second_pass_length items) as L.
  destruct (Nat.ltb_spec (length (second_pass items)) (length items)) as [Lt|Ge].
  - apply IH; lia.
  - assert (E : length (second_pass items) = length items) by lia.
    destruct (second_pass_fixpoint items E) as [E1 U]. rewrite E1. eauto.
Qed.
End Merge.
Print Assumptions merge_rec_fuel.
