import re,sys,json
src=open('/repo/crates/svgbob/src/map/ascii_map.rs').read()
# strip comments
def strip_comments(s):
    out=[];i=0;n=len(s)
    while i<n:
        if s.startswith('//',i):
            j=s.find('\n',i); i=n if j<0 else j
        elif s[i]=="'" :
            # char literal
            m=re.match(r"'(\\.|[^\\'])'",s[i:])
            if m: out.append(m.group(0)); i+=len(m.group(0))
            else: out.append(s[i]); i+=1
        elif s.startswith('/*',i):
            j=s.find('*/',i); i=j+2
        else: out.append(s[i]); i+=1
    return ''.join(out)
body=src[src.index('= vec![',src.index('let map:'))+len('= vec!['):src.index('let mut btree')]
body=strip_comments(body)
TOK=re.compile(r"\s*(?:('(?:\\.|[^\\'])')|([A-Za-z_][A-Za-z0-9_]*(?:::[A-Za-z_][A-Za-z0-9_]*)*)|(-?\d+\.\d+|-?\d+)|(&&|\|\||[(){}\[\],.!|;*\-+/]))")
toks=[];pos=0
while pos<len(body):
    m=TOK.match(body,pos)
    if not m:
        if body[pos:].strip()=='' : break
        raise SystemExit('lex error at %r'%body[pos:pos+40])
    pos=m.end()
    if m.group(1): toks.append(('chr',m.group(1)))
    elif m.group(2): toks.append(('id',m.group(2)))
    elif m.group(3): toks.append(('num',m.group(3)))
    else: toks.append(('p',m.group(4)))
i=0
def peek(k=0): return toks[i+k] if i+k<len(toks) else ('eof','')
def eat(kind=None,val=None):
    global i
    t=toks[i]
    if kind and t[0]!=kind or val is not None and t[1]!=val: raise SystemExit('parse error at tok %d: got %r expected %r %r ctx %r'%(i,t,kind,val,toks[max(0,i-8):i+5]))
    i+=1; return t[1]
NEIGH={'top_left','top','top_right','left','right','bottom_left','bottom','bottom_right'}
def vec(item):
    eat('id','vec'); eat('p','!'); eat('p','[')
    out=[]
    while peek()!=('p',']'):
        out.append(item())
        if peek()==('p',','): eat()
    eat('p',']'); return out
def point():
    t=eat('id')
    if t=='cell':
        eat('p','.'); d=eat('id'); eat('p','('); eat('p',')'); eat('p','.'); p=eat('id'); eat('p','('); eat('p',')')
        return ['nb',d,p]
    pt=['pt',t]
    while peek()==('p','.') and peek(1)[1] in('adjust','adjust_x','adjust_y'):
        eat(); f=eat('id'); eat('p','(')
        args=[]
        while peek()!=('p',')'):
            sign=''
            if peek()==('p','-'): eat(); sign='-'
            args.append(sign+eat('num'))
            if peek()==('p',','): eat()
        eat('p',')'); pt=[f,pt,args]
    return pt
def radius():
    t=eat('id')
    if peek()==('p','*'): eat(); return ['mul',t,eat('num')]
    return ['r',t]
def boolean(): return eat('id')
def frag():
    f=eat('id'); eat('p','(')
    if f in('line','broken_line'):
        a=point(); eat('p',','); b=point(); r=[f,a,b]
    elif f=='arc':
        a=point(); eat('p',','); b=point(); eat('p',','); r=[f,a,b,radius()]
    elif f=='circle':
        a=point(); eat('p',','); rr=radius(); eat('p',','); r=[f,a,rr,boolean()]
    elif f=='rect':
        a=point(); eat('p',','); b=point(); eat('p',','); x=boolean(); eat('p',','); y=boolean(); r=[f,a,b,x,y]
    elif f=='polygon':
        pts=vec(point); eat('p',','); fl=boolean(); eat('p',','); tags=vec(lambda: eat('id')); r=[f,pts,fl,tags]
    else: raise SystemExit('unknown frag '+f)
    if peek()==('p',','): eat()
    eat('p',')'); return r
def atom():
    if peek()==('p','!'): eat(); return ['not',atom()]
    if peek()==('p','('): eat(); e=expr(); eat('p',')'); return e
    t=eat('id')
    if t=='true': return ['true']
    assert t in NEIGH,t
    eat('p','.'); m=eat('id'); eat('p','(')
    if m=='is': a=[eat('chr')]
    elif m in('line_overlap','line_strongly_overlap','line_weakly_overlap','arcs_to'):
        a=[point()]; eat('p',','); a.append(point())
    else: raise SystemExit('unknown method '+m)
    eat('p',')'); return [m,t]+a
def conj():
    e=atom()
    while peek()==('p','&&'): eat(); e=['and',e,atom()]
    return e
def expr():
    e=conj()
    while peek()==('p','||'): eat(); e=['or',e,conj()]
    return e
def sig():
    eat('p','('); s=eat('id'); eat('p',','); fr=vec(frag)
    if peek()==('p',','): eat()
    eat('p',')'); return [s,fr]
def beh():
    eat('p','('); c=expr(); eat('p',','); fr=vec(frag)
    if peek()==('p',','): eat()
    eat('p',')'); return [c,fr]
entries=[]
while peek()[0]!='eof' and peek()!=('p',']'):
    eat('p','('); ch=eat('chr'); eat('p',','); sigs=vec(sig); eat('p',',')
    eat('id','Arc::new'); eat('p','('); eat('id','move'); eat('p','|')
    ns=[]
    while peek()!=('p','|'):
        ns.append(eat('id'));
        if peek()==('p',','): eat()
    eat('p','|'); eat('p','{'); bs=vec(beh); eat('p','}')
    if peek()==('p',','): eat()
    eat('p',')')
    if peek()==('p',','): eat()
    eat('p',')')
    if peek()==('p',','): eat()
    entries.append((ch,sigs,bs))
print(len(entries),'entries;', sum(len(b) for _,_,b in entries),'behaviours;', i,'of',len(toks),'tokens')
print([e[0] for e in entries])
