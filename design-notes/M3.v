From Coq Require Import List Arith Lia Bool.
Import ListNotations.
Require Import Merge.

Section M3.
Variable A : Type.
Variable merge : A -> A -> option A.
Variable P : A -> bool.
Hypothesis cross : forall a b, P a <> P b -> merge a b = None.
Hypothesis stay : forall a b c, merge a b = Some c -> P c = P a.

Notation tmr := (try_merge_rev A merge).
Notation step := (step A merge).
Notation second_pass := (second_pass A merge).

Lemma tmr_filter_in gs x : P x = true ->
  option_map (filter P) (tmr gs x) = tmr (filter P gs) x.
Proof.
  intros Px. induction gs as [|g gs IH]; cbn; auto.
  destruct (P g) eqn:Pg; cbn.
  - rewrite <- IH. destruct (tmr gs x) as [r|]; cbn.
    + rewrite Pg; auto.
    + destruct (merge g x) as [m|] eqn:M; cbn; auto.
      rewrite (stay _ _ _ M), Pg; auto.
  - rewrite <- IH. destruct (tmr gs x) as [r|]; cbn.
    + rewrite Pg; auto.
    + rewrite cross; [reflexivity|congruence].
Qed.

Lemma tmr_filter_out gs x gs' : P x = false ->
  tmr gs x = Some gs' -> filter P gs' = filter P gs.
Proof.
  intros Px. revert gs'; induction gs as [|g gs IH]; cbn; intros gs' H; [discriminate|].
  destruct (tmr gs x) as [r|] eqn:E.
  - inversion H; subst; cbn. rewrite (IH r eq_refl); auto.
  - destruct (merge g x) as [m|] eqn:M; inversion H; subst; cbn.
    rewrite (stay _ _ _ M).
    destruct (P g) eqn:Pg; auto.
    rewrite cross in M; [discriminate|congruence].
Qed.

Lemma step_filter acc x :
  filter P (step acc x) = if P x then step (filter P acc) x else filter P acc.
Proof.
  unfold Merge.step. destruct (P x) eqn:Px.
  - rewrite <- tmr_filter_in by auto.
    destruct (tmr acc x); cbn; auto.
    rewrite filter_app; cbn; rewrite Px; auto.
  - destruct (tmr acc x) eqn:E.
    + eapply tmr_filter_out; eauto.
    + rewrite filter_app; cbn; rewrite Px, app_nil_r; auto.
Qed.

Theorem second_pass_filter l :
  filter P (second_pass l) = second_pass (filter P l).
Proof.
  unfold Merge.second_pass.
  change (@nil A) with (filter P []) at 2.
  generalize (@nil A) as acc.
  induction l as [|x xs IH]; cbn; intros acc; auto.
  rewrite IH, step_filter. destruct (P x); cbn; auto.
Qed.
End M3.
Print Assumptions second_pass_filter.
