"""Case generators.  Every random choice derives from one random.Random(seed) object, so a
case is reproducible from (seed, generator, index); cases are also written out in full."""
import os, random, glob, itertools

VERIF = os.path.dirname(os.path.dirname(os.path.abspath(__file__)))
TABLES = os.path.join(VERIF, 'build', 'tables')
REPO = '/repo'

def table_keys():
    a = [chr(int(l)) for l in open(os.path.join(TABLES, 'ascii_keys.txt')) if l.strip()]
    u = [chr(int(l.split('\t')[0])) for l in open(os.path.join(TABLES, 'unicode_fragments.txt')) if l.strip()]
    return a, u

_KEYS = None
def keys():
    global _KEYS
    if _KEYS is None: _KEYS = table_keys()
    return _KEYS

LABELS = list('abcxyzABQ019%$@;?')
LATIN2 = list('éüßñ') + list('жпд')          # 2-byte letters
CJK = list('一二文字') + ['Ａ', 'あ']    # double width
COMBINING = ['́', '̈', '​', '‍', '️']   # zero width
CONTROLS = ['\x01', '\x07', '\x0b', '\x1b', '\x7f', '\x85', '\x9f']
NONBMP = ['\U0001F600', '\U00020000', '\U0001D11E', '\U000E0001']
SPECIAL = ['"', '\\', '{', '}', '&', '<', '>', "'", '\t', ' ', '　', '﻿', '￾', '￿', '\x00', '\ufffd', '\ufffc']

def full_alphabet():
    a, u = keys()
    return a + u + LABELS + LATIN2 + CJK + COMBINING + CONTROLS + NONBMP + SPECIAL

DRAWING_ASCII = list("-|+/\\.,'`_~:!=*oO#<>^vV()[]X")

def grid(rng, w, h, alphabet, density):
    rows = []
    for _ in range(h):
        rows.append(''.join(rng.choice(alphabet) if rng.random() < density else ' ' for _ in range(w)).rstrip(' ') if rng.random() < 0.7
                    else ''.join(rng.choice(alphabet) if rng.random() < density else ' ' for _ in range(w)))
    return '\n'.join(rows)

def g_grid(rng, n, maxw=14, maxh=8, alphabet=None, classes=None):
    """random grids over a random 2-10 subset of the alphabet"""
    alpha = alphabet or full_alphabet()
    a, u = keys()
    out = []
    for i in range(n):
        k = rng.randint(2, 10)
        r = rng.random()
        if alphabet is not None: sub = [rng.choice(alpha) for _ in range(k)]
        elif r < 0.45: sub = [rng.choice(DRAWING_ASCII) for _ in range(k)]
        elif r < 0.65: sub = [rng.choice(a + u) for _ in range(k)]
        elif r < 0.8: sub = [rng.choice(DRAWING_ASCII + LABELS) for _ in range(k)]
        else: sub = [rng.choice(alpha) for _ in range(k)]
        w = rng.randint(1, maxw); h = rng.randint(1, maxh)
        d = rng.choice([0.2, 0.4, 0.6, 0.9])
        out.append(('grid', grid(rng, w, h, sub, d)))
    return out

def examples():
    texts = []
    for f in sorted(glob.glob(os.path.join(REPO, 'crates/svgbob/test_data/*.bob'))):
        try: texts.append(open(f, encoding='utf-8').read())
        except Exception: pass
    return texts

def snippets(rng, n, maxw=30, maxh=10):
    """rectangular windows cut out of the bundled example diagrams"""
    ex = [t.split('\n') for t in examples()]
    ex = [e for e in ex if e]
    out = []
    if not ex: return out
    for i in range(n):
        e = rng.choice(ex)
        h = rng.randint(1, maxh); w = rng.randint(2, maxw)
        y = rng.randint(0, max(0, len(e) - h)); rows = e[y:y + h]
        mx = max((len(r) for r in rows), default=0)
        x = rng.randint(0, max(0, mx - w))
        out.append(('snippet', '\n'.join(r[x:x + w] for r in rows)))
    return out

def mutate(rng, text, alpha, k=None):
    s = list(text)
    if not s: return text
    for _ in range(k or rng.randint(1, 4)):
        i = rng.randrange(len(s))
        r = rng.random()
        if r < 0.5: s[i] = rng.choice(alpha)
        elif r < 0.75: del s[i]
        else: s.insert(i, rng.choice(alpha))
        if not s: break
    return ''.join(s)

def g_mut(rng, n):
    alpha = full_alphabet()
    return [('mut', mutate(rng, t, alpha if rng.random() < 0.3 else DRAWING_ASCII + [' ', '\n'])) for _, t in snippets(rng, n)]

# ---------------------------------------------------------------- shapes
def box(w, h, corners='++++', hz='-', vt='|', inner=None):
    """w, h = interior size"""
    tl, tr, bl, br = corners
    rows = [tl + hz * w + tr]
    for j in range(h):
        mid = (inner[j] if inner and j < len(inner) else '').ljust(w)[:w]
        rows.append(vt + mid + vt)
    rows.append(bl + hz * w + br)
    return rows

def place(rows, x, y):
    return '\n' * y + '\n'.join(' ' * x + r for r in rows)

def overlay(base_rows, rows, x, y):
    out = [list(r) for r in base_rows]
    while len(out) < y + len(rows): out.append([])
    for j, r in enumerate(rows):
        line = out[y + j]
        while len(line) < x + len(r): line.append(' ')
        for i, ch in enumerate(r):
            if ch != ' ': line[x + i] = ch
    return [''.join(l) for l in out]

def run_rows(ch, n, direction):
    if direction == 'h': return [ch * n]
    if direction == 'v': return [ch] * n
    if direction == 'd1': return [' ' * i + ch for i in range(n)]            # going down-right
    return [' ' * (n - 1 - i) + ch for i in range(n)]                       # going down-left

def circles_art():
    """the catalogue drawings, rebuilt from the dumped table spans"""
    arts = []
    for l in open(os.path.join(TABLES, 'circles.txt')):
        l = l.rstrip('\n')
        if not l: continue
        _, span = l.split('\t')
        cells = [tuple(int(v) for v in c.split(',')) for c in span.split(';')]
        w = max(c[0] for c in cells) + 1; h = max(c[1] for c in cells) + 1
        rows = [[' '] * w for _ in range(h)]
        for x, y, ch in cells: rows[y][x] = chr(ch)
        arts.append([''.join(r).rstrip() for r in rows])
    return arts

def arcs_art():
    """the arc drawings of the three derived tables, rebuilt from the dumped spans"""
    arts = []
    for name in ('quarter', 'half', 'three'):
        for l in open(os.path.join(TABLES, 'arcs_%s.txt' % name)):
            l = l.rstrip('\n')
            if not l: continue
            _, span = l.split('\t')
            cells = [tuple(int(v) for v in c.split(',')) for c in span.split(';')]
            x0 = min(c[0] for c in cells); y0 = min(c[1] for c in cells)
            w = max(c[0] for c in cells) - x0 + 1; h = max(c[1] for c in cells) - y0 + 1
            rows = [[' '] * w for _ in range(h)]
            for x, y, ch in cells: rows[y - y0][x - x0] = chr(ch)
            arts.append((name, [''.join(r).rstrip() for r in rows]))
    return arts

def arc_with_legs(rng, arts):
    """an arc drawing with extra characters attached below / beside it"""
    name, rows = rng.choice(arts)
    rows = list(rows)
    w = max(len(r) for r in rows)
    k = rng.choice(['legs', 'legs', 'side', 'plain'])
    if k == 'legs':
        last = rows[-1]
        xs = [i for i, ch in enumerate(last) if ch != ' ']
        if xs:
            for _ in range(rng.randint(1, 3)):
                leg = [' '] * w
                leg[xs[0]] = '|'; leg[xs[-1]] = '|'
                rows.append(''.join(leg).rstrip())
    elif k == 'side':
        j = rng.randrange(len(rows))
        rows[j] = rows[j].ljust(w) + rng.choice(['--', '-', 'ab', '+'])
    return rows

def g_shape(rng, n):
    out = []
    arts = None
    for i in range(n):
        kind = rng.choice(['box', 'rbox', 'run', 'arrow', 'bullet', 'circle', 'nested', 'ubox', 'tagbox', 'multi', 'arc', 'arc', 'touching'])
        x = rng.choice([0, 0, 1, 2, 5]); y = rng.choice([0, 0, 1, 3])
        if kind == 'box':
            w = rng.randint(0, 12); h = rng.randint(0, 5)
            hz = rng.choice(['-', '-', '~', '=']); vt = rng.choice(['|', '|', ':', '!'])
            inner = [rng.choice(['', ' ab', 'x', ' hello']) for _ in range(h)]
            rows = box(w, h, '++++', hz, vt, inner)
        elif kind == 'rbox':
            w = rng.randint(1, 12); h = rng.randint(1, 5)
            rows = box(w, h, rng.choice([".." + "''", "..`'", ",.`'", "╭╮╰╯"]), rng.choice(['-', '─', '~']), rng.choice(['|', '│', ':']))
        elif kind == 'ubox':
            w = rng.randint(0, 10); h = rng.randint(0, 4)
            st = rng.choice(['┌┐└┘─│', '╔╗╚╝═║', '╭╮╰╯─│', '┌┐└┘┄┆'])
            rows = box(w, h, st[:4], st[4], st[5])
        elif kind == 'run':
            ch = rng.choice(list("-~_|:!/\\=") + ['─', '│', '═', '╱', '╲', '┄'])
            d = {'-': 'h', '~': 'h', '_': 'h', '=': 'h', '─': 'h', '═': 'h', '┄': 'h', '|': 'v', ':': 'v', '!': 'v', '│': 'v',
                 '/': 'd2', '╱': 'd2', '\\': 'd1', '╲': 'd1'}[ch]
            rows = run_rows(ch, rng.randint(1, 45), d)
        elif kind == 'arrow':
            nlen = rng.randint(1, 8)
            d = rng.choice(['r', 'l', 'u', 'd', 'ur', 'ul', 'dr', 'dl'])
            if d == 'r': rows = ['-' * nlen + rng.choice('>▶►')]
            elif d == 'l': rows = [rng.choice('<◀◄') + '-' * nlen]
            elif d == 'u': rows = [rng.choice('^▲')] + ['|'] * nlen
            elif d == 'd': rows = ['|'] * nlen + [rng.choice('vV▼')]
            elif d == 'dr': rows = run_rows('\\', nlen, 'd1') + [' ' * nlen + rng.choice('vV>')]
            elif d == 'dl': rows = run_rows('/', nlen, 'd2'); rows = [' ' + r for r in rows] + [rng.choice('vV<')]
            elif d == 'ur': rows = [' ' * nlen + rng.choice('^>')] + run_rows('/', nlen, 'd2')
            else: rows = [rng.choice('^<')] + [' ' + r for r in run_rows('\\', nlen, 'd1')]
        elif kind == 'bullet':
            b = rng.choice('*oO')
            nlen = rng.randint(1, 6)
            d = rng.choice(['h', 'v', 'd1', 'd2'])
            ch = {'h': '-', 'v': '|', 'd1': '\\', 'd2': '/'}[d]
            pos = rng.choice(['start', 'end', 'mid'])
            seq = {'start': [b] + [ch] * nlen, 'end': [ch] * nlen + [b], 'mid': [ch] * nlen + [b] + [ch] * nlen}[pos]
            m = len(seq)
            if d == 'h': rows = [''.join(seq)]
            elif d == 'v': rows = seq
            elif d == 'd1': rows = [' ' * k + c for k, c in enumerate(seq)]
            else: rows = [' ' * (m - 1 - k) + c for k, c in enumerate(seq)]
        elif kind == 'circle':
            if arts is None: arts = circles_art()
            rows = list(rng.choice(arts))
            if rng.random() < 0.3:
                rows = overlay(rows, [rng.choice(['ab', '--', '+', '*'])], len(max(rows, key=len)) + rng.randint(1, 3), rng.randint(0, len(rows)))
        elif kind == 'touching':
            # catalogue circles that touch each other or a box: side by side without a gap, one right under the other, next to a wall
            if arts is None: arts = circles_art()
            small = [a for a in arts if len(a) <= 3]
            a = list(rng.choice(small if rng.random() < 0.7 else arts)); b = list(rng.choice(small if rng.random() < 0.7 else arts))
            how = rng.choice(['side', 'under', 'box', 'three'])
            wa = max(len(r) for r in a)
            if how == 'side': rows = [(a[i] if i < len(a) else '').ljust(wa) + (b[i] if i < len(b) else '') for i in range(max(len(a), len(b)))]
            elif how == 'under': rows = a + b
            elif how == 'three': rows = [(a[i] if i < len(a) else '').ljust(wa) * 3 for i in range(len(a))]
            else:
                bx = box(rng.randint(1, 3), max(len(a), 1)); rows = [bx[0]] + [bx[1 + i] + (a[i] if i < len(a) else '') for i in range(len(bx) - 2)] + [bx[-1]]
        elif kind == 'arc':
            if not hasattr(g_shape, '_arcs'): g_shape._arcs = arcs_art()
            rows = arc_with_legs(rng, g_shape._arcs)
        elif kind == 'nested':
            depth = rng.randint(2, 4)
            w = 2 * depth + rng.randint(1, 4); h = 2 * depth
            rows = box(w, h)
            for k in range(1, depth):
                rows = overlay(rows, box(w - 2 * k - 0, h - 2 * k), k, k) if (w - 2 * k >= 0 and h - 2 * k >= 0) else rows
        elif kind == 'tagbox':
            w = rng.randint(3, 12); h = rng.randint(1, 3)
            tagtxt = rng.choice(['{a}', '{a,b}', '{w}A', '{big_1}', '{}', '{a ', '{a}{b}', 'x{a}', '{é}'])
            inner = [(' ' * rng.randint(0, 2) + tagtxt)] + [rng.choice(['', 'txt']) for _ in range(h - 1)]
            rows = box(w, h, rng.choice(['++++', "..''"]), '-', '|', inner)
            if rng.random() < 0.4:
                rows = rows + ['', '# Legend:', 'a = {fill:red;}', 'b = {stroke:blue;}']
        else:
            rows = box(rng.randint(1, 5), rng.randint(1, 3))
            rows = overlay(rows, run_rows('-', rng.randint(2, 6), 'h'), len(rows[0]) + rng.randint(0, 2), rng.randint(0, 2))
            rows = overlay(rows, ['o', '|', '*'], rng.randint(0, 9), len(rows) + rng.randint(0, 1))
        out.append(('shape:' + kind, place(rows, x, y)))
    return out

# ---------------------------------------------------------------- text channels
PAYLOADS = ['<script>alert(1)</script>', '</style><x>', '<a href="u">', ' onload=alert(1) ', ']]>', '<!-- c -->', '<?pi?>',
            '&ent;', '&amp;', '"', "'", '</text><rect/>', '\x01', '￾', '&#60;', '<![CDATA[x]]>', '</svg>']

def rnd_text(rng, n, alpha=None):
    alpha = alpha or (LABELS + LATIN2 + CJK + COMBINING + [' ', ' '])
    return ''.join(rng.choice(alpha) for _ in range(n))

def legend(rng, eol='\n'):
    entries = []
    for _ in range(rng.randint(0, 5)):
        name = rng.choice(['a', 'b', 'big_1', '_x', 'Zz9', 'é', '1a', 'a-b'])
        decl = rng.choice(['fill:red;', 'stroke: blue; fill:none', '', ' ', 'a\nb', 'x"y', "f:'q'", '<&>', rng.choice(PAYLOADS).replace('{', '').replace('}', ''), 'fill:{', ])
        sp = rng.choice(['', ' ', '  ', '\t'])
        entries.append('%s%s=%s{%s}%s' % (name, sp, sp, decl, rng.choice(['', '', ' ', '  \t'])))
    head = rng.choice(['# Legend:', '#Legend:', '#  Legend:', '# Legend: ', ' # Legend:', '# legend:', '# Legend', '# Legend:x'])
    return head + eol + eol.join(entries) + rng.choice(['', eol, eol + eol, ' '])

def g_text(rng, n):
    out = []
    alpha_txt = LABELS + LATIN2 + CJK + COMBINING + [' ']
    for i in range(n):
        kind = rng.choice(['quoted', 'quoted', 'legend', 'payload', 'rowtext', 'tag', 'mixed'])
        if kind == 'quoted':
            rows = []
            for _ in range(rng.randint(1, 3)):
                parts = []
                for _ in range(rng.randint(1, 3)):
                    parts.append(rng.choice(['', ' ', '--', '| ', 'ab ', '+-', '一', 'é ']))
                    inner = rnd_text(rng, rng.randint(0, 6), LABELS + LATIN2 + CJK + list('-|+/<>&*') + [' ', '\\"', '\\'])
                    parts.append('"' + inner + '"')
                    parts.append(rng.choice(['', ' |', '--', ' x', '*']))
                if rng.random() < 0.2: parts.append('"')   # unbalanced
                rows.append(''.join(parts))
            rows.append(rng.choice(['', '----', 'xxxx', '+--+']))
            t = '\n'.join(rows)
        elif kind == 'legend':
            eol = rng.choice(['\n', '\n', '\r\n'])
            body = rng.choice(['', '+--+\n|{a}|\n+--+', '{a}', ' .-.\n( b )\n `-\'', 'ab'])
            t = body.replace('\n', eol) + eol + legend(rng, eol)
        elif kind == 'payload':
            p = rng.choice(PAYLOADS)
            ch = rng.choice(['plain', 'quoted', 'legendname', 'legenddecl', 'tag'])
            if ch == 'plain': t = rng.choice(['', '+--+ ']) + p
            elif ch == 'quoted': t = '"' + p.replace('"', '') + '"'
            elif ch == 'legendname': t = '{a}\n# Legend:\n' + p + ' = {fill:red}'
            elif ch == 'legenddecl': t = '+--+\n|{a}\n+--+\n# Legend:\na = {' + p.replace('{', '').replace('}', '') + '}'
            else:
                inner = '{' + p.replace('\n', ' ') + '}'; w = len(inner) + 2
                t = '+' + '-' * w + '+\n| ' + inner + ' |\n+' + '-' * w + '+'
        elif kind == 'rowtext':
            n1 = rng.randint(1, 7)
            row = ''.join(rng.choice(alpha_txt + [' ', ' ']) for _ in range(n1))
            under = rng.choice(['x', '-', '_']) * rng.randint(0, 9)
            t = row + '\n' + under
        elif kind == 'tag':
            w = rng.randint(4, 14)
            tagtxt = rng.choice(['{a}', '{a,b}', '{w}A', '{}', '{a', 'a}', '{a}{b}', '{a} x', '{1}', '{_}', '{a,}', '{é}', '{a b}'])
            t = '\n'.join(box(w, 1, rng.choice(['++++', "..''"]), '-', '|', [rng.choice(['', ' ']) + tagtxt]))
            if rng.random() < 0.5: t = tagtxt + ' ' + t.replace('\n', '\n     ')
            if rng.random() < 0.5: t += '\n# Legend:\na = {fill:blue}\nb = {stroke:red}'
        else:
            t = mutate(rng, rng.choice(['"a" | {b}\n# Legend:\nb = {x:y}', '+-"-"-+\n| é一 |\n+-----+', 'a "b\\"c" d']), full_alphabet(), 2)
        out.append(('text:' + kind, t))
    return out

def g_malformed(rng, n):
    out = []
    frag = ['"', '""', '\\"', '{', '}', '{a', '# Legend:', '# Legend:\n', 'a = {', 'a = }', '= {x}', '\r', '\r\n', '\n\r', '\x00', ' ' * 50,
            '\t', '"' * 7, '{' * 5, '}}' * 3, 'a={b}', '#', '# ', '\\', ' ', '\x0c', '\x0b']
    for i in range(n):
        k = rng.randint(1, 8)
        t = ''.join(rng.choice(frag + DRAWING_ASCII + ['\n', ' ', 'x']) for _ in range(k * rng.randint(1, 4)))
        out.append(('malformed', t))
    return out

def g_exhaustive(alphabet, w, h):
    """every grid of the given size over the alphabet"""
    for cells in itertools.product(alphabet, repeat=w * h):
        yield ('exh', '\n'.join(''.join(cells[r * w:(r + 1) * w]) for r in range(h)))

def corpus():
    """minimised cases kept from earlier failures; always run first"""
    out = []
    for f in sorted(glob.glob(os.path.join(VERIF, 'gen', 'corpus', '*.txt'))):
        out.append(('corpus:' + os.path.basename(f), open(f, encoding='utf-8', newline='').read()))
    return out

def g_groups(rng, n=None):
    """contact groups of controlled size: any table character as head, a connector, a rail with d drops
    (the recognisers look at groups of exactly 4 and exactly 8 fragments)"""
    a, u = keys()
    out = []
    for head in a + u:
        for conn in ('', '>', '-', '<'):
            for d in range(0, 8):
                rail = '+'.join(['-'] * (d + 1)) if d else '-'
                top = head + conn + rail
                off = len(head + conn) + 1
                drops = ' ' * off + ' '.join(['|'] * d)
                out.append(('groups', top + '\n' + drops if d else top))
    if n is not None and n < len(out):
        rng.shuffle(out); out = out[:n]
    return out

def mixed(rng, n):
    """the default mixture"""
    k = max(1, n // 10)
    cs = g_grid(rng, 4 * k) + g_mut(rng, k) + snippets(rng, k) + g_shape(rng, 2 * k) + g_text(rng, k) + g_malformed(rng, k)
    return cs[:n] if len(cs) > n else cs
